#!/usr/bin/env python3
"""Regenerates /verif/MANIFEST.json from the table below (single source of truth)."""
import json, os, sys
ROOT = os.path.dirname(os.path.dirname(os.path.abspath(__file__)))
sys.path.insert(0, ROOT)
from vlib import props

HOOK_COMMITS = ["5faa070"]
FIX_COMMITS = ["5ce47be", "5913455", "371624d"]
LEVEL_TEXT = {
 "C07": ("TLC checks the colour formula's lemmas (within 1 of the real-valued formula, monotone, alpha) for all 2^24 "
         "triples on Yuv.tla, and validates the real converter's output against Yuv!Pixel for all 65536 chroma pairs x "
         "32 luma values (quick) / all 2^24 triples (thorough, exhaustive).", "5 C07"),
 "C08": ("TLC recomputes every pixel of every picture size in a dense range from Yuv!Convert (pairing definition model-"
         "checked in MCYuvPairing) and compares with the bytes returned by the real converter.", "5 C08"),
 "C09": ("TLC checks the Annex J kernel lemmas (range, direction and inversion symmetry, identities, change bounds) over "
         "27^4 stratified quadruples x 12 strengths and the edge-schedule lemmas for all sizes <= 48 on Deblock.tla, and "
         "replays every recorded deblock() call as the two Annex J passes, comparing every output sample.", "5 C09"),
 "C16": ("Exhaustive over widths x heights (from 0 rows) x 12 strengths: every recorded call must return and equal "
         "Deblock!DeblockImage as recomputed by TLC; the published strength table is compared with Table J.2 "
         "transcribed in the specification.", "5 C16"),
 "C14": ("The reader is specified as a state machine (BitReader.tla); TLC explores exhaustively every op sequence of "
         "bounded length over all small sources (invariants InOrderOnce, BufferAccounting, ResultsAreFaithful, action "
         "property RollbackRestores), exports behaviours that are replayed into the real H263Reader, and validates the "
         "recorded result and position probe of every operation of long random sequences against the same spec.", "5 C14"),
}
NOTE = {
 "C14": "Trusted: TLC; position is observed through a non-consuming peek probe after every operation; failed VLC reads are only generated where the documented 'position undefined' cannot matter (inside a transaction that then fails, or as the last operation).",
 "C09": "Trusted: TLC's evaluator. The 2^32 x 12 kernel domain is covered by stratified quadruples (10^4 quick / 16^4 thorough) placed in vector and scalar lanes, not exhaustively.",
 "C16": "Trusted: TLC's evaluator; bounded size range (24x24 quick, 48x48 thorough).",
 "C07": "Trusted: TLC's evaluator; the driver's packing of RGBA into one integer. Inputs are 4x1 pictures (vector body).",
 "C08": "Trusted: TLC's evaluator; plane contents are seeded random bytes (arbitrary content has no structure to enumerate).",
}
TECH = {
 "C07": "TLA+ spec (Yuv.tla) model-checked exhaustively with TLC + trace validation of recorded conversions",
 "C08": "TLA+ spec (Yuv.tla) + TLC trace validation of recorded conversions over a dense size range",
 "C09": "TLA+ spec (Deblock.tla) model-checked with TLC + staged trace validation (horizontal pass, vertical pass, compare)",
 "C16": "TLA+ spec (Deblock.tla) + exhaustive size x strength sweep validated by TLC",
 "C14": "TLA+ state machine (BitReader.tla) model-checked exhaustively with TLC; spec behaviours replayed into the code; recorded op sequences trace-validated by TLC",
}
ALL = ["C%02d" % i for i in range(1, 18)]
checks, na = [], []
for pid in ALL:
    if pid in props.PLANS and pid in LEVEL_TEXT:
        checks.append({
            "property_id": pid,
            "quick_cmd": "./check %s --tier quick" % pid,
            "thorough_cmd": "./check %s --tier thorough" % pid,
            "evidence_file": "/verif/evidence/%s.json" % pid,
            "replay_cmd_template": "./check %s --replay {path}" % pid,
            "engine": "tlc-trace-validation",
            "level_claimed": {"category": "model_checking", "text": LEVEL_TEXT[pid][0],
                              "design_ref": "DESIGN.md section " + LEVEL_TEXT[pid][1]},
            "level_note": NOTE[pid],
            "technique": TECH[pid],
        })
    else:
        na.append({"property_id": pid, "reason": "check under construction in this build round (specification module not yet bound to the code); see DESIGN.md section 5"})
m = {
 "version": 1,
 "setup_cmd": "cd /verif/harness && cargo build --release --offline && cd /verif && ./tools/selfcheck.sh",
 "hooks": {"guard": "--cfg h263_rs_verif", "enable": "RUSTFLAGS in /verif/harness/.cargo/config.toml: --cfg h263_rs_verif (path dependencies on /repo/{h263,yuv,deblock})",
           "baseline_off_cmd": "cd /repo && cargo test --workspace --no-fail-fast --offline",
           "source_commits": HOOK_COMMITS, "add_only": True},
 "engines": [{"name": "tlc-trace-validation", "path": "/verif/check", "serves_properties": [c["property_id"] for c in checks],
              "kind_free_text": "explicit TLA+ specification (/verif/spec) model-checked with TLC; TLC-generated abstract inputs replayed into the real code by a Rust driver (/verif/harness); recorded executions validated against the specification by TLC"}],
 "checks": checks,
 "not_applicable": na,
 "notes": "All verdicts are taken by TLC against /verif/spec/*.tla; the Rust driver holds no expected values. Exit 2 = tool error.",
}
json.dump(m, open(os.path.join(ROOT, "MANIFEST.json"), "w"), indent=1)
print("checks:", [c["property_id"] for c in checks], "n/a:", [x["property_id"] for x in na])
