#!/usr/bin/env python3
"""Regenerates /verif/MANIFEST.json from the table below (single source of truth)."""
import json, os, sys
ROOT = os.path.dirname(os.path.dirname(os.path.abspath(__file__)))
sys.path.insert(0, ROOT)
from vlib import props

HOOK_COMMITS = ["5faa070"]
# (level text, DESIGN section, level note, technique)
T = {
 "C01": ("Structured attacks derived from the abstract picture syntax (truncation at every byte, bit flips, forbidden codes, "
         "size changes, zero sizes, extreme levels) and random bytes, across histories and all four option combinations, are "
         "run in the real decoder inside isolated workers; TLC validates every call of every history against the decoder "
         "model: the outcome must be a return value (ok or err) and the observable state must be consistent with it.",
         "5 C01", "Exploration-strength evidence inside the model-checking framework: inputs are unbounded, the explored set is finite. Memory safety proper is delegated to safe Rust (no unsafe in the three crates); arithmetic overflow is observed because the harness builds with overflow checks.",
         "TLA+ decoder model (TraceDecoder/Decoder.tla) + TLC trace validation of fault-injected histories; outcome class checked for every call"),
 "C02": ("TLC encodes abstract intra pictures (Picture.tla) into bytes, the real decoder decodes them, and TLC recomputes "
         "every sample from the specification (zig-zag placement, dequantisation, two-limb fixed-point ideal IDCT with an "
         "explicit error interval, clipping) and compares planes, plane sizes, header and reader position.", "5 C02",
         "Trusted: TLC; the ideal IDCT is evaluated in 2^-12 units with tolerance eps(F) = 2^-9 + 2^-19*sum|F| (+1 allowed only inside that band); bounded picture sizes and counts.",
         "TLA+ spec of the picture layer as encoder and oracle; TLC-generated bitstreams replayed into the decoder; staged TLC trace validation"),
 "C03": ("Histories I,P,P,... : TLC recomputes vector prediction (median of three candidates with the border rules), the "
         "wrap into [-16,15.5], chroma vectors, bilinear half-sample prediction with edge clamp, residuals, not-coded and "
         "post-truncation macroblocks from the specification and compares every sample of every predicted picture with "
         "what the real decoder produced; references are adopted from the decoder so tolerated +-1 cannot snowball.", "5 C03",
         "Trusted: TLC; references are the decoder's own previous output (validated when it was produced).",
         "TLA+ spec (Recon.tla, Picture.tla) + TLC trace validation of predicted pictures over adopted references"),
 "C04": ("Two-layer TLA+ model (requirement: last/reference are pictures; implementation-shaped: TR-keyed store): TLC checks "
         "RefIsLastNonDisposable for all histories over {I,P,D,Reject,Cleanup} and all TR assignments up to a bound (and Apalache "
         "discharges an inductive invariant of the same model for histories of any length and TRs 0..1023), exports "
         "every model history, and validates the real decoder's planes, header and hook state after every call of those "
         "histories (and of long random ones with arbitrary 8-bit TRs) against the requirement layer.", "5 C04",
         "Trusted: TLC, Apalache (inductive invariant of the abstract model only); replayed histories are bounded (3/4 exhaustively, 12..40 sampled).",
         "TLA+ refinement model checked with TLC; TLC-exported behaviours replayed; pixel-level trace validation"),
 "C05": ("Failing inputs at every depth (header, macroblock header, vectors, block data, missing reference, missing data) "
         "are injected into histories; TLC validates that after every error the planes, header, reference state and reader "
         "probe are unchanged, that valid continuations decode as if the failure never happened, and that split delivery "
         "(every byte split point) ends in the state of single delivery.", "5 C05",
         "Trusted: TLC; split points at byte granularity; carried-over options are observed through the hook accessor.",
         "TLA+ decoder model + TLC trace validation of fault-injected histories and of split deliveries"),
 "C06": ("PictureHeader.tla defines header bits and expected fields per clause 5.1 / the Sorenson layout; TLC encodes "
         "headers over exhaustive per-field domains and random cross products, the real parser parses them, and TLC compares "
         "every public field and the bits consumed; malformed markers must be rejected.", "5 C06",
         "Trusted: TLC; cross-field combinations are sampled (pairwise/random), per-field domains are exhaustive.",
         "TLA+ header specification as encoder and oracle; TLC trace validation of parser::decode_picture"),
 "C07": ("TLC checks the colour formula's lemmas (within 1 of the real-valued formula, monotone, alpha) for all 2^24 "
         "triples on Yuv.tla, and validates the real converter's output against Yuv!Pixel for all 65536 chroma pairs x "
         "32 luma values (quick) / all 2^24 triples (thorough, exhaustive).", "5 C07",
         "Trusted: TLC's evaluator; the driver's packing of RGBA into one integer. Inputs are 4x1 pictures (vector body).",
         "TLA+ spec (Yuv.tla) model-checked exhaustively with TLC + trace validation of recorded conversions"),
 "C08": ("TLC recomputes every pixel of every picture size in a dense range from Yuv!Convert (pairing definition model-"
         "checked in MCYuvPairing) and compares with the bytes returned by the real converter.", "5 C08",
         "Trusted: TLC's evaluator; plane contents are seeded random bytes (arbitrary content has no structure to enumerate).",
         "TLA+ spec (Yuv.tla) + TLC trace validation of recorded conversions over a dense size range"),
 "C09": ("TLC checks the Annex J kernel lemmas (range, direction and inversion symmetry, identities, change bounds) over "
         "27^4 stratified quadruples x 12 strengths and the edge-schedule lemmas for all sizes <= 48 on Deblock.tla, and "
         "replays every recorded deblock() call as the two Annex J passes, comparing every output sample.", "5 C09",
         "Trusted: TLC's evaluator. The 2^32 x 12 kernel domain is covered by stratified quadruples (10^4 quick / 16^4 thorough) placed in vector and scalar lanes, not exhaustively.",
         "TLA+ spec (Deblock.tla) model-checked with TLC + staged trace validation (horizontal pass, vertical pass, compare)"),
 "C10": ("The Annex A procedure (60,000 blocks, its own thresholds) is run through the real channel IDCT; TLC computes the "
         "ideal transform of every block in two-limb fixed point, bounds the peak error per sample and accumulates the mean "
         "and mean-square statistics, and a final TLC run evaluates the Annex A thresholds on the sums.", "5 C10",
         "The double-precision reference of Annex A is replaced by the wide-integer ideal transform (error < 2^-10); the forward DCT that produces the test blocks runs in the driver (it only produces inputs).",
         "TLA+ ideal IDCT (Recon.tla) as oracle; TLC trace validation; thresholds evaluated in TLA+"),
 "C11": ("Exhaustive over 31 quantizers x all codable levels in every escape form (and all Table-16 short codes), at cycling "
         "zig-zag positions, all INTRADC codes and all quantizer updates: each carried by a 16x16 picture that TLC encodes and "
         "whose decoded samples TLC compares with the ideal transform of the specified coefficient; plus the inverse_rle hook "
         "for exact coefficient values.", "5 C11",
         "Trusted: TLC. A wrong coefficient must move some sample out of its allowed range; single coefficients are amplified by a fixed DC so that saturation and parity errors are visible.",
         "TLA+ spec (Recon!Dequant, Picture.tla) + exhaustive TLC-encoded pictures, trace-validated"),
 "C12": ("TLC checks the vector lemmas exhaustively on the spec (wrap lands in range and is congruent, inversion formulation "
         "equals modular formulation, chroma rounding odd-symmetric) and validates the real mv_decode for all 64x64 pairs, "
         "the real chroma rounding for all sums -128..124, predict_candidate for all neighbour configurations, and P "
         "pictures whose vectors chain through every macroblock position.", "5 C12",
         "Trusted: TLC; hook routes use re-exported internal functions under cfg(h263_rs_verif).",
         "TLA+ spec (Recon.tla) model-checked + TLC validation of hook results and of decoded P pictures"),
 "C13": ("For every picture size in a dense range and every quantizer, a TLC-encoded picture is decoded, each plane deblocked "
         "with the tabulated strength and converted; TLC validates plane shapes (Pipeline lemma), absence of panics with "
         "debug assertions enabled, output length, and for small sizes the full RGBA result = Yuv o Deblock o Recon.", "5 C13",
         "Trusted: TLC; debug assertions of the converters are enabled in the harness build, so their documented preconditions are checked.",
         "TLA+ specs composed (Picture, Deblock, Yuv) + TLC trace validation of the whole pipeline"),
 "C14": ("The reader is specified as a state machine (BitReader.tla); TLC explores exhaustively every op sequence of "
         "bounded length over all small sources (invariants InOrderOnce, BufferAccounting, ResultsAreFaithful, action "
         "property RollbackRestores), exports behaviours that are replayed into the real H263Reader, and validates the "
         "recorded result and position probe of every operation of long random sequences against the same spec.", "5 C14",
         "Trusted: TLC; position is observed through a non-consuming peek probe after every operation; failed VLC reads are only generated where the documented 'position undefined' cannot matter.",
         "TLA+ state machine (BitReader.tla) model-checked exhaustively with TLC; spec behaviours replayed into the code; recorded op sequences trace-validated by TLC"),
 "C15": ("Sequences of TLC-encoded pictures are delivered in one reader (all bytes present before the first call) and one "
         "reader per picture; TLC validates both runs against the same model states and checks after every call that the "
         "reader probe equals the stream at the end of that picture's macroblock data.", "5 C15",
         "Trusted: TLC; sequences up to 4 pictures exhaustively over type/size classes, longer ones sampled.",
         "TLA+ decoder model with reader position + TLC trace validation of concatenated vs separate delivery"),
 "C16": ("Exhaustive over widths x heights (from 0 rows) x 12 strengths: every recorded call must return and equal "
         "Deblock!DeblockImage as recomputed by TLC; the published strength table is compared with Table J.2 "
         "transcribed in the specification.", "5 C16",
         "Trusted: TLC's evaluator; bounded size range (24x24 quick, 48x48 thorough).",
         "TLA+ spec (Deblock.tla) + exhaustive size x strength sweep validated by TLC"),
 "C17": ("Instances.tla: TLC checks Independence and Determinism over all interleavings of calls on 3 instances; every "
         "interleaving is forced in the real code by a turnstile, and free-running threads and fresh processes decode the "
         "same histories; each instance's trace is validated on its own against the decoder model and replicas must agree "
         "byte for byte.", "5 C17",
         "TLA+ models call-level interleavings; instruction-level races are excluded by construction (no unsafe, no static mut, decoders not shared) - stated assumption.",
         "TLA+ multi-instance model checked with TLC; TLC-generated interleavings forced on real threads; per-instance trace validation"),
}
ALL = ["C%02d" % i for i in range(1, 18)]
checks, na = [], []
for pid in ALL:
    if pid in props.PLANS:
        text, ref, note, tech = T[pid]
        checks.append({
            "property_id": pid,
            "quick_cmd": "./check %s --tier quick" % pid,
            "thorough_cmd": "./check %s --tier thorough" % pid,
            "evidence_file": "/verif/evidence/%s.json" % pid,
            "replay_cmd_template": "./check %s --replay {path}" % pid,
            "engine": "tlc-trace-validation",
            "level_claimed": {"category": "model_checking", "text": text, "design_ref": "DESIGN.md section " + ref},
            "level_note": note,
            "technique": tech,
        })
    else:
        na.append({"property_id": pid, "reason": "check under construction in this build round (specification written, binding to the code not yet registered); see DESIGN.md section 5"})
m = {
 "version": 1,
 "setup_cmd": "cd /verif/harness && cargo build --release --offline && cd /verif && ./tools/selfcheck.sh",
 "hooks": {"guard": "--cfg h263_rs_verif", "enable": "rustflags in /verif/harness/.cargo/config.toml: --cfg h263_rs_verif (path dependencies on /repo/{h263,yuv,deblock})",
           "baseline_off_cmd": "cd /repo && cargo test --workspace --no-fail-fast --offline",
           "source_commits": HOOK_COMMITS, "add_only": True},
 "engines": [{"name": "tlc-trace-validation", "path": "/verif/check", "serves_properties": [c["property_id"] for c in checks],
              "kind_free_text": "explicit TLA+ specification (/verif/spec) model-checked with TLC; TLC-generated abstract inputs and behaviours replayed into the real code by a Rust driver (/verif/harness); recorded executions validated against the specification by TLC"}],
 "checks": checks,
 "not_applicable": na,
 "notes": "All verdicts are taken by TLC against /verif/spec/*.tla; the Rust driver holds no expected values. Exit 2 = tool error. Fix commits in /repo are listed in known_findings.txt.",
}
json.dump(m, open(os.path.join(ROOT, "MANIFEST.json"), "w"), indent=1)
print("checks:", [c["property_id"] for c in checks], "n/a:", [x["property_id"] for x in na])
