#!/usr/bin/env python3
"""Binding demonstration (DESIGN.md section 7, "Vacuity"):
 (1) for every trace specification a small valid trace is recorded from the real code, accepted, then one recorded field
     is corrupted and the specification must reject it with an IMPL diagnostic;
 (2) the model separates the designs of the reference store: MCDecoderPinned and MCDecoderTrStore must yield TLC
     counterexamples, MCDecoder must pass;
 (3) the known-findings protocol: a violation whose signature is listed as `open:` is reported as KNOWN-FINDING, others as
     VIOLATION (exercised on a corrupted trace with a temporary known-findings file).
Exit 0 iff everything behaves as stated."""
import json, os, random, sys
ROOT = os.path.dirname(os.path.dirname(os.path.abspath(__file__)))
sys.path.insert(0, ROOT)
from vlib import core, props, picgen as pg, readergen, hdrgen

fails = []


def expect(cond, what):
    print(("ok   " if cond else "FAIL ") + what, flush=True)
    if not cond:
        fails.append(what)


def record(run, cmds, encode=None):
    if encode == "pic":
        cmds = run.encode(cmds, nshards=1)
    elif encode == "hdr":
        cmds = props.encode_headers(run, cmds)
    for i, c in enumerate(cmds):
        c["ci"] = i
    ev, n = core.run_driver(cmds, run.work, "selftest")
    return ev, [json.loads(x) for x in open(ev)]


def validate(run, module, evs, tag):
    path = os.path.join(run.work, "st-%s.ndjson" % tag)
    with open(path, "w") as f:
        for e in evs:
            f.write(json.dumps(e) + "\n")
    return core.run_tlc(module, env={"TRACE": path}, workdir=run.work)


def impl(r):
    return [d for d in r.diags if d.get("cls") == "IMPL"]


def main():
    core.build_harness()
    run = core.Run("SELFTEST", "quick", 1)
    rng = random.Random(11)
    # ---- TraceYuv
    _, evs = record(run, [{"op": "yuv", "w": 5, "y": props.rbytes(rng, 15), "cb": props.rbytes(rng, 6), "cr": props.rbytes(rng, 6)}])
    expect(not impl(validate(run, "TraceYuv", evs, "yuv0")), "TraceYuv accepts a recorded conversion")
    evs[0]["out"][7] += 256
    expect(impl(validate(run, "TraceYuv", evs, "yuv1")), "TraceYuv rejects one blue value changed by 1")
    # ---- TraceDeblock
    _, evs = record(run, [{"op": "deblock", "w": 12, "s": 6, "data": props.rbytes(rng, 12 * 18)}])
    expect(not impl(validate(run, "TraceDeblock", evs, "db0")), "TraceDeblock accepts a recorded call")
    evs[0]["out"][12 * 8 + 3] ^= 1
    expect(impl(validate(run, "TraceDeblock", evs, "db1")), "TraceDeblock rejects one output sample changed by 1")
    # ---- TraceBitReader
    _, evs = record(run, [readergen.random_seq(rng, 30, 10) for _ in range(20)])
    expect(not impl(validate(run, "TraceBitReader", evs, "rd0")), "TraceBitReader accepts recorded operation sequences")
    done = False
    for e in evs:
        for r_ in e["res"]:
            if r_.get("r") == "ok" and isinstance(r_.get("v"), list) and not done:
                r_["v"][1] ^= 1
                done = True
    expect(done and impl(validate(run, "TraceBitReader", evs, "rd1")), "TraceBitReader rejects one returned value with a flipped bit")
    # ---- TraceDecoder (pixel mode)
    H = props.Hist()
    H.new()
    H.decode(pg.intra_picture(rng, props.sor_hdr(rng, "I", 3, 20, 12, 1), big=False))
    H.decode(pg.inter_picture(rng, props.sor_hdr(rng, "P", 4, 20, 12, 1), big=False))
    _, evs = record(run, H.cmds, encode="pic")
    expect(not impl(validate(run, "TraceDecoder", evs, "dec0")), "TraceDecoder accepts a recorded I, P history")
    e2 = json.loads(json.dumps(evs)); e2[2]["cb"][5] = (e2[2]["cb"][5] + 1) % 256
    r = validate(run, "TraceDecoder", e2, "dec1")
    expect(any(d["what"] == "cb-sample" for d in impl(r)), "TraceDecoder rejects one chroma sample of the P picture changed by 1")
    e3 = json.loads(json.dumps(evs)); e3[2]["ref"] = 3
    expect(impl(validate(run, "TraceDecoder", e3, "dec2")), "TraceDecoder rejects a wrong reference temporal reference")
    e4 = json.loads(json.dumps(evs)); e4[2]["probe"] = [8, 1]
    expect(impl(validate(run, "TraceDecoder", e4, "dec3")), "TraceDecoder rejects a wrong reader position after the picture")
    # ---- TraceRecon
    _, evs = record(run, [{"op": "rle", "q": 7, "dc": -1, "ev": [[3, -20]]}, {"op": "mv", "pairs": [[-32, -1], [31, 31]]},
                          {"op": "annexa", "L": 256, "H": 255, "sign": 1, "start": 0, "n": 3, "seed": 1, "set": "s"}])
    expect(not impl(validate(run, "TraceRecon", evs, "rc0")), "TraceRecon accepts recorded primitives")
    evs[2]["out0"][1][9] = max(0, evs[2]["out0"][1][9] - 2) if evs[2]["out0"][1][9] > 1 else evs[2]["out0"][1][9] + 2
    evs[1]["out"][0][0] += 1
    r = validate(run, "TraceRecon", evs, "rc1")
    expect(len(impl(r)) >= 2, "TraceRecon rejects an IDCT sample off by 2 and a vector component off by one half sample")
    # ---- TraceHeader
    _, evs = record(run, [hdrgen.cmd(rng, hdrgen.rand_plus(rng, ufep=1)) for _ in range(10)], encode="hdr")
    ok0 = not impl(validate(run, "TraceHeader", evs, "hd0"))
    expect(ok0, "TraceHeader accepts recorded header parses")
    for e in evs:
        if e.get("rc") == "ok":
            e["got"]["q"] = (e["got"]["q"] + 1) % 32
            break
    expect(impl(validate(run, "TraceHeader", evs, "hd1")), "TraceHeader rejects a wrong quantizer field")
    # ---- (2) the model separates the designs
    for cfg, should_fail in (("MCDecoder", False), ("MCDecoderPinned", True), ("MCDecoderTrStore", True)):
        r = core.run_tlc("MCDecoder", cfg, workdir=run.work, workers=4)
        failed = bool(r.error)
        expect(failed == should_fail, "model %s %s" % (cfg, "has a TLC counterexample" if should_fail else "satisfies RefIsLastNonDisposable"))
    for cfg, should_fail in (("MCFormat-current", False), ("MCFormat-rprp-any", True), ("MCFormat-from-header", True)):
        r = core.run_tlc("MCFormat", cfg, workdir=run.work, workers=2)
        expect(bool(r.error) == should_fail, "size model %s %s" % (cfg, "has a TLC counterexample" if should_fail else "satisfies SizeInForce"))
    r = core.run_tlc("MbLoop", "MbLoopPinned", workdir=run.work, workers=2)
    expect(bool(r.error), "model MbLoopPinned (unbounded macroblock loop of the pinned tree) lets the count pass the picture")
    outcome, _, _ = core.run_apalache("DecoderIndTrStore", ["--init=IndInit", "--inv=IndInv", "--length=1"], run.work)
    expect(outcome == "Error", "Apalache: with disposable pictures in the TR-keyed store the invariant is not inductive")
    # ---- (3) known-findings protocol
    r2 = core.Run("SELFTEST", "quick", 1)
    r2.impl_diags = [({"sig": "some-listed-signature", "what": "x"}, []), ({"sig": "another-signature", "what": "y"}, [])]
    saved = core.KNOWN
    tmp = os.path.join(run.work, "kf.txt")
    open(tmp, "w").write("open: property=SELFTEST sig=some-listed-signature :: demo\n")
    core.KNOWN = tmp
    import io, contextlib
    buf = io.StringIO()
    with contextlib.redirect_stdout(buf):
        rc = r2.finish(rule="selftest", write_evidence=False)
    core.KNOWN = saved
    out = buf.getvalue()
    expect("KNOWN-FINDING: property=SELFTEST sig=some-listed-signature" in out and "VIOLATION property=SELFTEST" in out and rc == 1,
           "listed signature -> KNOWN-FINDING, unlisted -> VIOLATION (exit 1)")
    for f in ("SELFTEST.json",):
        try:
            os.remove(os.path.join(core.EVID, f))
        except OSError:
            pass
    print("selftest:", "PASS" if not fails else "FAIL %s" % fails)
    sys.exit(0 if not fails else 1)


if __name__ == "__main__":
    main()
