#!/usr/bin/env python3
"""Confirms sub-agent deliverables in a scratch worktree: with the patch the existing tests pass and the demonstration
fails; without it the demonstration passes.  Confirmed ones are copied to /verif/seeded/<id>-<A|B>/."""
import glob, json, os, shutil, subprocess, sys
WT = "/tmp/wt/confirm"
ENV = dict(os.environ, CARGO_NET_OFFLINE="true", RUSTFLAGS="--cfg h263_rs_verif --check-cfg cfg(h263_rs_verif)")
ENV0 = dict(os.environ, CARGO_NET_OFFLINE="true")


def sh(cmd, env=ENV0, cwd=WT, timeout=1800):
    p = subprocess.run(cmd, shell=True, cwd=cwd, env=env, stdout=subprocess.PIPE, stderr=subprocess.STDOUT, text=True, timeout=timeout)
    return p.returncode, p.stdout


def crate_of(pid, demo, notes):
    for c in ("yuv", "deblock", "h263"):
        if "%s/tests/%s" % (c, os.path.basename(demo)) in notes:
            return c
    return {"C07": "yuv", "C08": "yuv", "C09": "deblock", "C16": "deblock"}.get(pid, "h263")


def main():
    if not os.path.exists(WT):
        sh("git -C /repo worktree add -q %s HEAD" % WT, cwd="/")
        shutil.copy("/repo/Cargo.lock", WT)
    out = {}
    for d in sorted(glob.glob(os.environ.get("SEEDDIR", "/tmp/seed") + "/C*/[AB]")):
        pid, ab = d.split("/")[-2], d.split("/")[-1]
        name = "%s-%s%s" % (pid, os.environ.get("SEEDTAG", ""), ab)
        if sys.argv[1:] and name not in sys.argv[1:]:
            continue
        demos = sorted(glob.glob(d + "/*.rs"), key=lambda f: ("e2e" not in f, f))
        notes = open(d + "/NOTES.md").read() if os.path.exists(d + "/NOTES.md") else ""
        if not demos or not os.path.exists(d + "/patch.diff"):
            out[name] = "incomplete"; print(name, "incomplete"); continue
        demo = demos[0]
        crate = crate_of(pid, demo, notes)
        pkg = {"h263": "h263-rs", "yuv": "h263-rs-yuv", "deblock": "h263-rs-deblock"}[crate]
        tname = os.path.basename(demo)[:-3]
        sh("git checkout -q -- . && git clean -fdq -e Cargo.lock -e target"); shutil.copy("/repo/Cargo.lock", WT)
        os.makedirs("%s/%s/tests" % (WT, crate), exist_ok=True)
        shutil.copy(demo, "%s/%s/tests/%s.rs" % (WT, crate, tname))
        src = open(demo).read()
        if crate == "h263" and ("h263_rs_deblock" in src or "h263_rs_yuv" in src):      # end-to-end demonstrations
            with open(WT + "/h263/Cargo.toml", "a") as f:
                f.write('\n[dev-dependencies]\nh263-rs-deblock = { path = "../deblock" }\nh263-rs-yuv = { path = "../yuv" }\n')
        # (c) demo passes without the mutation
        rc_c, o_c = sh("cargo test --offline -p %s --test %s 2>&1 | tail -15" % (pkg, tname), env=ENV)
        pass_clean = "test result: ok" in o_c and "FAILED" not in o_c
        rc, o = sh("git apply --whitespace=nowarn %s/patch.diff" % d)
        if rc != 0:
            out[name] = "patch does not apply"; print(name, out[name], o[-200:]); continue
        # (a) existing tests pass with the mutation (demo file moved away)
        os.rename("%s/%s/tests/%s.rs" % (WT, crate, tname), "/tmp/wt/demo_hold.rs")
        rc_a, o_a = sh("cargo test --workspace --no-fail-fast --offline 2>&1 | grep 'test result'")
        tests_ok = o_a.count("test result: ok") >= 3 and "FAILED" not in o_a and "25 passed" in o_a
        os.rename("/tmp/wt/demo_hold.rs", "%s/%s/tests/%s.rs" % (WT, crate, tname))
        # (b) demo fails with the mutation
        rc_b, o_b = sh("cargo test --offline -p %s --test %s 2>&1 | tail -15" % (pkg, tname), env=ENV)
        fail_mut = "FAILED" in o_b or "panicked" in o_b or "error: test failed" in o_b
        ok = pass_clean and tests_ok and fail_mut
        out[name] = {"demo_passes_on_head": pass_clean, "existing_tests_pass_with_change": tests_ok, "demo_fails_with_change": fail_mut}
        print(name, "CONFIRMED" if ok else "NOT CONFIRMED", out[name], flush=True)
        if ok:
            dst = "/verif/seeded/%s" % name
            os.makedirs(dst, exist_ok=True)
            shutil.copy(d + "/patch.diff", dst)
            shutil.copy(demo, dst)
            shutil.copy(d + "/NOTES.md", dst)
            json.dump({"property": pid, "kind": "seeded by an independent sub-agent given only the property text",
                       "needs": "see NOTES.md", "demo": os.path.basename(demo), "demo_location": "%s/tests/" % crate,
                       "confirmed": out[name],
                       "ran": ["cargo test --offline -p %s --test %s  (HEAD: passes)" % (pkg, tname),
                               "git apply patch.diff; cargo test --workspace --no-fail-fast --offline  (34 tests pass)",
                               "cargo test --offline -p %s --test %s  (with the change: fails)" % (pkg, tname)],
                       "checks": [pid]}, open(dst + "/meta.json", "w"), indent=1)
    sh("git checkout -q -- . && git clean -fdq -e Cargo.lock -e target")
    json.dump(out, open(os.environ.get("SEEDDIR", "/tmp/seed") + "/CONFIRM.json", "w"), indent=1)


if __name__ == "__main__":
    main()
