#!/bin/sh
# setup-time sanity: every specification module parses (SANY) and the driver exists
set -e
cd /verif/spec
for f in *.tla; do
  # modules written for Apalache (typed, EXTENDS Apalache) are parsed by Apalache when C04 runs
  if grep -q "EXTENDS.*Apalache" "$f"; then continue; fi
  java -cp /opt/veriftools/tla/tla2tools.jar:/opt/veriftools/tla/CommunityModules-deps.jar tla2sany.SANY "$f" >/tmp/sany.$$ 2>&1 || { cat /tmp/sany.$$; rm -f /tmp/sany.$$; exit 1; }
done
rm -f /tmp/sany.$$
test -x /verif/harness/target/release/drv
echo "setup ok"
