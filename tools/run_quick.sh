#!/bin/sh
# runs the quick tier of every check (seed from VERIF_SEED, default 1) and prints one summary line each
cd "$(dirname "$0")/.."
mkdir -p .work
for p in C01 C02 C03 C04 C05 C06 C07 C08 C09 C10 C11 C12 C13 C14 C15 C16 C17; do
  start=$(date +%s)
  ./check $p --tier quick > .work/quick-$p.log 2>&1
  rc=$?
  echo "$p exit=$rc wall=$(( $(date +%s) - start ))s $(grep -E 'quick:' .work/quick-$p.log | tail -1)"
  grep -E "VIOLATION|TOOL-ERROR|KNOWN-FINDING" .work/quick-$p.log | head -3
done
