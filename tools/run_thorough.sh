#!/bin/sh
# runs the thorough tier of every check, one after the other (each under a time limit), and prints one summary line each
cd "$(dirname "$0")/.."
for p in C07 C08 C16 C12 C15 C11 C10 C06 C02 C03 C05 C17 C13 C09 C14 C04 C01; do
  start=$(date +%s)
  timeout 10800 ./check $p --tier thorough > thorough-$p.log 2>&1
  rc=$?
  echo "$p exit=$rc wall=$(( $(date +%s) - start ))s $(grep -E 'thorough:' thorough-$p.log | tail -1)"
  grep -E "VIOLATION|TOOL-ERROR" thorough-$p.log | head -3
done
