#!/usr/bin/env python3
"""Applies each seeded change under /verif/seeded/<name>/patch.diff to /repo (working tree only), runs the quick checks
named in meta.json ("checks": [...]; default: the property it breaks), records which raised a VIOLATION, and restores
/repo.  Usage: tools/run_seeded.py [name ...]      (results: /verif/seeded/RESULTS.json)"""
import json, os, subprocess, sys, time
ROOT = os.path.dirname(os.path.dirname(os.path.abspath(__file__)))
SEED = os.path.join(ROOT, "seeded")


def sh(cmd, **kw):
    return subprocess.run(cmd, shell=True, stdout=subprocess.PIPE, stderr=subprocess.STDOUT, text=True, **kw)


def main():
    names = sys.argv[1:] or sorted(d for d in os.listdir(SEED) if os.path.exists(os.path.join(SEED, d, "patch.diff")))
    respath = os.path.join(SEED, "RESULTS.json")
    results = json.load(open(respath)) if os.path.exists(respath) else {}
    if sh("git -C /repo status --porcelain --untracked-files=no").stdout.strip():
        print("refusing: /repo has uncommitted changes to tracked files")
        sys.exit(2)
    for n in names:
        d = os.path.join(SEED, n)
        meta = json.load(open(os.path.join(d, "meta.json")))
        checks = meta.get("checks") or [meta["property"]]
        r = sh("git -C /repo apply --whitespace=nowarn %s" % os.path.join(d, "patch.diff"))
        if r.returncode != 0:
            print(n, "PATCH DOES NOT APPLY", r.stdout[-300:])
            results[n] = {"error": "patch does not apply"}
            continue
        out = {}
        try:
            for c in checks:
                t0 = time.time()
                p = sh("cd %s && ./check %s --tier quick" % (ROOT, c), timeout=3600)
                vio = [ln for ln in p.stdout.splitlines() if ln.startswith("VIOLATION")]
                what = [ln.strip()[:300] for ln in p.stdout.splitlines() if ln.strip().startswith("what:")]
                out[c] = {"exit": p.returncode, "violations": vio, "what": what[:3], "wall_s": round(time.time() - t0)}
                print(n, c, "exit", p.returncode, "DETECTED" if p.returncode == 1 else ("TOOL-ERROR" if p.returncode == 2 else "missed"),
                      (what[0][:160] if what else ""), flush=True)
        finally:
            sh("git -C /repo checkout -- .")
            sh("git -C /repo clean -fdq -- h263 yuv deblock")
        results[n] = {"property": meta["property"], "checks": out,
                      "detected": any(v["exit"] == 1 for v in out.values())}
        json.dump(results, open(respath, "w"), indent=1)
    # leave the harness built from the clean tree
    sh("cd %s/harness && cargo build --release --offline" % ROOT)


if __name__ == "__main__":
    main()
