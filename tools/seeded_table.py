#!/usr/bin/env python3
"""Prints markdown table rows (change | what it is | quick check | reported as) for the seeded changes named on the
command line (default: rounds 3 and 4), from seeded/<name>/NOTES.md (title line) and seeded/RESULTS.json."""
import json, os, re, sys
ROOT = os.path.dirname(os.path.dirname(os.path.abspath(__file__)))
SEED = os.path.join(ROOT, "seeded")
res = json.load(open(os.path.join(SEED, "RESULTS.json")))
names = sys.argv[1:] or sorted(d for d in os.listdir(SEED) if re.match(r"C\d\d-[34][AB]$", d))
for n in names:
    title = open(os.path.join(SEED, n, "NOTES.md")).readline().strip()
    title = re.sub(r"^#\s*C\d\d\s*/\s*mutation [AB]\s*[-—]+\s*", "", title)
    title = re.sub(r"\s*\(kind [^)]*\)\s*$", "", title).replace("|", "/")
    r = res.get(n, {})
    prop = r.get("property", n[:3])
    chk = r.get("checks", {}).get(prop, {})
    sig = ""
    for w in chk.get("what", []):
        m = re.search(r'"sig": "([^"]+)"', w) or re.search(r'"what": "([^"]+)"', w)
        if m:
            sig = m.group(1)
            break
    verdict = "%s detects" % prop if r.get("detected") else "**missed**"
    print("| %s | %s | %s | `%s` |" % (n, title, verdict, sig))
