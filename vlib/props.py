"""Per-property check plans (DESIGN.md section 5)."""
import json
import os
import random

from . import core
from .core import Run

PLANS = {}


def plan(pid):
    def deco(f):
        PLANS[pid] = f
        return f
    return deco


def rbytes(rng, n):
    return [rng.randrange(256) for _ in range(n)]


# =========================================================================== C07
@plan("C07")
def c07(tier, seed):
    run = Run("C07", tier, seed)
    rng = random.Random(seed)
    # (a) the model: lemmas over all 2^24 triples (within 1 of the real formula, monotone, alpha)
    run.model_check_sharded("MCYuv", nshards=16)
    # (b) the implementation: every (Cb,Cr) pair x a set of luma values through yuv420_to_rgba
    if tier == "thorough":
        ys = list(range(256))
        run.exhaustive = True
    else:
        must = [0, 1, 15, 16, 17, 18, 125, 126, 127, 128, 129, 234, 235, 236, 254, 255]
        rest = [v for v in range(256) if v not in must]
        rng.shuffle(rest)
        ys = sorted(must + rest[:16])
    cmds = [{"op": "yuv_sweep", "ys": ys[i:i + 4]} for i in range(0, len(ys), 4)]
    run.drive_and_validate(cmds, "TraceYuv", sample=2)
    run.evaluations = len(ys) * 65536
    run.nontrivial = len(ys) * 65536
    run.notes["triples_checked_against_implementation"] = len(ys) * 65536
    run.assumptions = ["4x1 pictures exercise the vector body of the converter; the remainder path is C08's domain"]
    return run.finish(
        rule="model: all 2^24 (Y,Cb,Cr) in MCYuv (256 states, invariant quantifies over 2^16 chroma pairs each); "
             "implementation: for each selected luma value all 65536 (Cb,Cr) pairs through yuv420_to_rgba on 4x1 "
             "pictures (%d luma values; thorough = all 256 = the whole domain); every triple is a distinct case" % len(ys))


# =========================================================================== C08
@plan("C08")
def c08(tier, seed):
    run = Run("C08", tier, seed)
    rng = random.Random(seed)
    wmax, hmax = (40, 24) if tier == "quick" else (100, 40)
    cmds = [{"op": "yuv", "w": 0, "y": [], "cb": [], "cr": []}]
    for w in range(1, wmax + 1):
        for h in range(1, hmax + 1):
            cw, ch = (w + 1) // 2, (h + 1) // 2
            cmds.append({"op": "yuv", "w": w, "y": rbytes(rng, w * h), "cb": rbytes(rng, cw * ch),
                         "cr": rbytes(rng, cw * ch)})
    # a few large sizes spanning many SIMD groups
    for (w, h) in [(176, 144), (177, 3), (353, 2), (3, 301)] if tier == "thorough" else [(177, 3), (131, 2)]:
        cw, ch = (w + 1) // 2, (h + 1) // 2
        cmds.append({"op": "yuv", "w": w, "y": rbytes(rng, w * h), "cb": rbytes(rng, cw * ch),
                     "cr": rbytes(rng, cw * ch)})
    run.model_check("MCYuvPairing")
    run.drive_and_validate(cmds, "TraceYuv", sample=2)
    run.evaluations = len(cmds)
    run.nontrivial = len(cmds)
    return run.finish(
        rule="every (w,h) in 1..%d x 1..%d (all residues mod 4 / mod 2, 1-pixel rows and columns) with seeded random "
             "plane content, plus the documented empty picture and a few sizes spanning many SIMD groups; each size "
             "is a distinct case; TLC recomputes all w*h pixels from Yuv!Convert" % (wmax, hmax))


# =========================================================================== C09 / C16
def _img(w, h, s, data):
    return {"op": "deblock", "w": w, "s": s, "data": data}


def _lane_images(vals, strengths, rng):
    """Embed every 4-tuple over `vals` in a horizontal-edge quadruple (image 15 x 10: columns 0..7 are
    vector lanes, 8..14 scalar remainder) and in a vertical-edge quadruple (image 10 x 9: rows 0..7 form
    the vector group, row 8 is a scalar remainder row); every tuple is placed twice, shifted by 8
    positions, so that it meets both kinds of lane."""
    tuples = [(a, b, c, d) for a in vals for b in vals for c in vals for d in vals]
    cmds = []
    for s in strengths:
        for shift in (0, 8):
            ts = tuples[shift:] + tuples[:shift]
            # horizontal edge at y = 8 : rows 6..9 carry A..D, one tuple per column
            for i in range(0, len(ts), 15):
                grp = ts[i:i + 15]
                w, h = 15, 10
                img = [rng.randrange(256) for _ in range(w * h)]
                for x, t in enumerate(grp):
                    for j in range(4):
                        img[(6 + j) * w + x] = t[j]
                cmds.append(_img(w, h, s, img))
            # vertical edge at x = 8 : columns 6..9 carry A..D, one tuple per row; h = 9 has no horizontal edge
            for i in range(0, len(ts), 9):
                grp = ts[i:i + 9]
                w, h = 10, 9
                img = [rng.randrange(256) for _ in range(w * h)]
                for y, t in enumerate(grp):
                    for j in range(4):
                        img[y * w + 6 + j] = t[j]
                cmds.append(_img(w, h, s, img))
    return cmds, len(tuples)


@plan("C09")
def c09(tier, seed):
    run = Run("C09", tier, seed)
    rng = random.Random(seed)
    run.model_check_sharded("MCDeblock", nshards=16)
    if tier == "quick":
        vals = [0, 1, 11, 20, 64, 127, 128, 201, 254, 255]
        strengths = [1, 4, 9, 12]
        wmax, hmax, sset = 40, 40, [1, 4, 12]
    else:
        vals = [0, 1, 2, 11, 20, 31, 64, 100, 127, 128, 129, 201, 240, 253, 254, 255]
        strengths = list(range(1, 13))
        wmax, hmax, sset = 40, 40, list(range(1, 13))
    cmds, ntuples = _lane_images(vals, strengths, rng)
    n_lane = len(cmds)
    for w in range(1, wmax + 1):
        for h in range(0, hmax + 1):
            for s in sset:
                cmds.append(_img(w, h, s, rbytes(rng, w * h)))
                if (w + h + s) % 3 == 0:
                    cmds.append(_img(w, h, s, [255 * ((x + y) % 2) for y in range(h) for x in range(w)]))
    # a few larger images with several vector groups in both directions
    for (w, h) in [(64, 48), (83, 35), (35, 83)] + ([(176, 144), (177, 145)] if tier == "thorough" else []):
        cmds.append(_img(w, h, rng.randrange(1, 13), rbytes(rng, w * h)))
    rng.shuffle(cmds)
    run.drive_and_validate(cmds, "TraceDeblock", sample=3)
    run.evaluations = len(cmds)
    run.nontrivial = len(cmds)
    run.notes["kernel_tuples_x_strengths_placed_in_vector_and_scalar_lanes"] = ntuples * len(strengths)
    run.notes["lane_images"] = n_lane
    return run.finish(
        rule="(a) every 4-tuple over %d stratified sample values x %d strengths embedded in a horizontal-edge and in a "
             "vertical-edge quadruple, each once in a vector lane and once in a scalar-remainder lane; (b) every size "
             "1..%d x 0..%d x strengths %s with seeded random content and alternating 0/255 content; (c) larger images. "
             "TLC recomputes every output sample with Deblock!DeblockImage; images are distinct by construction."
             % (len(vals), len(strengths), wmax, hmax, sset))


@plan("C16")
def c16(tier, seed):
    run = Run("C16", tier, seed)
    rng = random.Random(seed)
    run.model_check_sharded("MCDeblock", nshards=16)
    wmax, hmax = (24, 24) if tier == "quick" else (48, 48)
    cmds = [{"op": "strength_table"}]
    for w in range(1, wmax + 1):
        for h in range(0, hmax + 1):
            for s in range(1, 13):
                data = [0] * (w * h) if (w + h + s) % 2 == 0 else rbytes(rng, w * h)
                cmds.append(_img(w, h, s, data))
    rng.shuffle(cmds)
    run.drive_and_validate(cmds, "TraceDeblock", sample=3)
    run.evaluations = len(cmds)
    run.nontrivial = len(cmds)
    run.exhaustive = True
    return run.finish(
        rule="exhaustive over widths 1..%d x heights 0..%d x strengths 1..12 (content alternately all-zero and seeded "
             "random) plus the published QUANT_TO_STRENGTH table; the outcome must be a return equal to "
             "Deblock!DeblockImage and the table must equal Table J.2 as transcribed in Deblock!TableJ2" % (wmax, hmax))


# =========================================================================== C14
@plan("C14")
def c14(tier, seed):
    from . import readergen
    run = Run("C14", tier, seed)
    rng = random.Random(seed)
    # (a) the reader model, exhaustively: all op sequences of bounded length over small sources
    run.model_check("MCBitReader", "MCBitReader" if tier == "quick" else "MCBitReaderDeep", workers=16, xmx="8g",
                    timeout=1500)
    # (b) spec -> implementation: TLC-generated behaviours replayed into the real H263Reader
    nseeds, num = (8, 40) if tier == "quick" else (16, 600)
    gens = run.generate_sim("MCBitReader", "MCBitReaderSim", num=num, depth=20,
                            seeds=[seed * 1000 + k for k in range(nseeds)])
    # (TLC evaluates the export invariant on every successor it generates, so each simulated trace
    # yields all one-step continuations of its prefix: all are behaviours of the model)
    cap = 8000 if tier == "quick" else 150000
    if len(gens) > cap:
        rng.shuffle(gens)
        gens = gens[:cap]
    cmds = [readergen.from_tlc(g) for g in gens]
    n_tlc = len(cmds)
    # (c) implementation -> spec: long seeded random operation sequences
    nrand, nops, maxb = (2500, 40, 12) if tier == "quick" else (30000, 120, 64)
    cmds += [readergen.random_seq(rng, rng.randrange(5, nops), rng.choice([3, 4, 6, maxb])) for _ in range(nrand)]
    run.drive_and_validate(cmds, "TraceBitReader", sample=3)
    run.evaluations = sum(len(c["ops"]) for c in cmds)
    run.nontrivial = len({json.dumps([c["src"], c["ops"]]) for c in cmds})
    run.notes["tlc_generated_behaviours_replayed"] = n_tlc
    run.notes["random_sequences"] = nrand
    run.notes["operations_validated"] = run.evaluations
    return run.finish(
        rule="model: exhaustive BFS of MCBitReader (all sources <= 3 bytes over a 4-byte alphabet, all op sequences of "
             "length <= %d, nesting <= 2) checking InOrderOnce, BufferAccounting, ResultsAreFaithful, RollbackRestores; "
             "implementation: every behaviour exported by TLC simulation of the same model plus seeded random sequences "
             "(<= %d ops, sources <= %d bytes, widths 0..33, six result types, two VLC tables, Table D.3 codes, growing "
             "source) replayed in the real H263Reader with nested closures; every result and a look-ahead probe after "
             "every operation validated by TraceBitReader; distinct = distinct (source, op list) pairs"
             % (3 if tier == "quick" else 4, nops, maxb))


# =========================================================================== replay
def replay(pid, path, seed):
    rec = json.load(open(path))
    run = Run(pid, "quick", seed)
    cmds = rec["commands"]
    module = REPLAY_MODULE[pid]
    run.drive_and_validate(cmds, module, nshards=1, group=(lambda c: 0))
    return run.finish(rule="replay of %s" % path)


REPLAY_MODULE = {"C07": "TraceYuv", "C08": "TraceYuv", "C09": "TraceDeblock", "C16": "TraceDeblock", "C14": "TraceBitReader"}
