"""Per-property check plans (DESIGN.md section 5)."""
import json
import os
import random

from . import core
from .core import Run, log

PLANS = {}


def plan(pid):
    def deco(f):
        PLANS[pid] = f
        return f
    return deco


def rbytes(rng, n):
    return [rng.randrange(256) for _ in range(n)]


# =========================================================================== C07
@plan("C07")
def c07(tier, seed):
    run = Run("C07", tier, seed)
    rng = random.Random(seed)
    # (a) the model: lemmas over all 2^24 triples (within 1 of the real formula, monotone, alpha)
    run.model_check_sharded("MCYuv", nshards=16)
    # (b) the implementation: every (Cb,Cr) pair x a set of luma values through yuv420_to_rgba
    if tier == "thorough":
        ys = list(range(256))
        run.exhaustive = True
    else:
        must = [0, 1, 15, 16, 17, 18, 125, 126, 127, 128, 129, 234, 235, 236, 254, 255]
        rest = [v for v in range(256) if v not in must]
        rng.shuffle(rest)
        ys = sorted(must + rest[:16])
    cmds = [{"op": "yuv_sweep", "ys": ys[i:i + 4]} for i in range(0, len(ys), 4)]
    # the same sweep on widths that are not multiples of four: the pixels left over after the last whole group of four
    # (w % 4 = 1, 2, 3, with and without a whole group before them) are converted by code of their own in any vectorised
    # converter; the colour of a triple must not depend on where in a row it stands
    low = [v for v in ys if v < 16] + [v for v in ys if v > 235]
    if tier == "thorough":
        for i in range(0, 256, 3):
            cmds.append({"op": "yuv_sweep", "ys": (ys + ys)[i:i + 3]})
            cmds.append({"op": "yuv_sweep", "ys": [rng.choice(ys) for _ in range(4)] + (ys + ys)[i:i + 3]})
        for w in (1, 2, 5, 6):
            for _ in range(16):
                cmds.append({"op": "yuv_sweep", "ys": [rng.choice(ys if rng.random() < 0.5 else low) for _ in range(w)]})
    else:
        for w in (1, 2, 3, 5, 6, 7):
            cmds.append({"op": "yuv_sweep", "ys": [rng.choice(ys if k % 2 else low) for k in range(w)]})
    # flat chroma: all chroma samples of the row equal (the sweeps above make neighbouring chroma samples differ, so a whole
    # group of ONE colour - all neutral, say - never occurs in them); the darkest and the brightest luma values together
    lows = sorted(v for v in ys if v <= 16)[:4]
    highs = sorted(v for v in ys if v >= 235)[-4:]
    for grp in ([lows, highs, [rng.choice(ys) for _ in range(4)]] if tier == "quick" else
                [lows, highs] + [ys[i:i + 4] for i in range(0, 256, 4)]):
        if len(grp) == 4:
            cmds.append({"op": "yuv_sweep", "ys": grp, "same": True})
            cmds.append({"op": "yuv_sweep", "ys": grp[:3] + grp, "same": True})
    rng.shuffle(cmds)       # and widths alternate from call to call
    # ... also inside one driver process: every sweep is preceded, in the same process, by the conversion of a wider picture
    # with other colours (a converter that keeps anything from call to call must not let it reach the next picture)
    seq = []
    for gi, c in enumerate(cmds):
        wp = rng.choice([8, 9, 12, 16, 23])
        hp = rng.choice([1, 2, 3])
        cwp, chp = (wp + 1) // 2, (hp + 1) // 2
        seq.append({"op": "yuv", "w": wp, "y": rbytes(rng, wp * hp), "cb": rbytes(rng, cwp * chp), "cr": rbytes(rng, cwp * chp), "g": gi})
        c["g"] = gi
        seq.append(c)
    cmds = [c for c in seq if c["op"] == "yuv_sweep"]
    run.drive_and_validate(seq, "TraceYuv", sample=2, group=lambda c: c["g"])
    npx = sum(len(c["ys"]) for c in cmds) * 65536
    run.evaluations = npx
    run.nontrivial = len(ys) * 65536
    run.notes["triples_checked_against_implementation"] = len(ys) * 65536
    run.notes["pixels_converted"] = npx
    run.notes["sweep_widths"] = sorted({len(c["ys"]) for c in cmds})
    return run.finish(
        rule="model: all 2^24 (Y,Cb,Cr) in MCYuv (256 states, invariant quantifies over 2^16 chroma pairs each); "
             "implementation: for each selected luma value all 65536 (Cb,Cr) pairs through yuv420_to_rgba on 4x1 "
             "pictures (%d luma values; thorough = all 256 = the whole domain), and again on 1, 2, 3, 5, 6 and 7 pixel wide "
             "pictures so that left-over pixels after the last group of four are swept too (thorough: every luma value in a "
             "left-over position), with neighbouring chroma samples different and with flat chroma (whole groups of one colour), "
             "each sweep preceded in the same process by a wider picture; every triple is a distinct case" % len(ys))


# =========================================================================== C08
@plan("C08")
def c08(tier, seed):
    run = Run("C08", tier, seed)
    rng = random.Random(seed)
    wmax, hmax = (40, 24) if tier == "quick" else (160, 64)
    cmds = [{"op": "yuv", "w": 0, "y": [], "cb": [], "cr": []}]

    def plane(n, style):
        # arbitrary plane contents: uniform bytes, and low-entropy contents in which special values (neutral chroma 128,
        # black 16, the extremes) sit next to other values - special-cased fast paths must not change the pairing
        if style == 0:
            return rbytes(rng, n)
        if style == 1:
            return [rng.choice([128, 128, 128, rng.randrange(256)]) for _ in range(n)]
        if style == 2:
            return [rng.choice([16, 128, 235, 240, 0, 255]) for _ in range(n)]
        a, b = rng.randrange(256), rng.randrange(256)
        return [a if (i // 2) % 2 == 0 else b for i in range(n)]
    for w in range(1, wmax + 1):
        for h in range(1, hmax + 1):
            cw, ch = (w + 1) // 2, (h + 1) // 2
            st = (w * 31 + h * 17 + seed) % 4
            cmds.append({"op": "yuv", "w": w, "y": plane(w * h, st), "cb": plane(cw * ch, (st + (w % 2)) % 4 if st else 0),
                         "cr": plane(cw * ch, st)})
    for i in range(400 if tier == "quick" else 40000):       # neutral chroma mixed with other values, many group alignments
        w, h = rng.randrange(1, 33), rng.randrange(1, 9)
        cw, ch = (w + 1) // 2, (h + 1) // 2
        cmds.append({"op": "yuv", "w": w, "y": plane(w * h, rng.randrange(4)), "cb": plane(cw * ch, rng.choice([1, 2])),
                     "cr": plane(cw * ch, rng.choice([1, 2]))})
    # a few large sizes spanning many SIMD groups
    for (w, h) in [(176, 144), (177, 3), (353, 2), (3, 301)] if tier == "thorough" else [(177, 3), (131, 2)]:
        cw, ch = (w + 1) // 2, (h + 1) // 2
        cmds.append({"op": "yuv", "w": w, "y": rbytes(rng, w * h), "cb": rbytes(rng, cw * ch),
                     "cr": rbytes(rng, cw * ch)})
    run.model_check("MCYuvPairing")
    run.drive_and_validate(cmds, "TraceYuv", sample=2)
    run.evaluations = len(cmds)
    run.nontrivial = len(cmds)
    return run.finish(
        rule="every (w,h) in 1..%d x 1..%d (all residues mod 4 / mod 2, 1-pixel rows and columns) with seeded random "
             "plane content, plus the documented empty picture and a few sizes spanning many SIMD groups; each size "
             "is a distinct case; TLC recomputes all w*h pixels from Yuv!Convert" % (wmax, hmax))


# =========================================================================== C09 / C16
def _img(w, h, s, data):
    return {"op": "deblock", "w": w, "s": s, "data": data}


def _lane_images(vals, strengths, rng):
    """Embed every 4-tuple over `vals` in a horizontal-edge quadruple (image 15 x 10: columns 0..7 are
    vector lanes, 8..14 scalar remainder) and in a vertical-edge quadruple (image 10 x 9: rows 0..7 form
    the vector group, row 8 is a scalar remainder row); every tuple is placed twice, shifted by 8
    positions, so that it meets both kinds of lane."""
    tuples = [(a, b, c, d) for a in vals for b in vals for c in vals for d in vals]
    cmds = []
    for s in strengths:
        for shift in (0, 8):
            ts = tuples[shift:] + tuples[:shift]
            # horizontal edge at y = 8 : rows 6..9 carry A..D, one tuple per column
            for i in range(0, len(ts), 15):
                grp = ts[i:i + 15]
                w, h = 15, 10
                img = [rng.randrange(256) for _ in range(w * h)]
                for x, t in enumerate(grp):
                    for j in range(4):
                        img[(6 + j) * w + x] = t[j]
                cmds.append(_img(w, h, s, img))
            # vertical edge at x = 8 : columns 6..9 carry A..D, one tuple per row; h = 9 has no horizontal edge
            for i in range(0, len(ts), 9):
                grp = ts[i:i + 9]
                w, h = 10, 9
                img = [rng.randrange(256) for _ in range(w * h)]
                for y, t in enumerate(grp):
                    for j in range(4):
                        img[y * w + 6 + j] = t[j]
                cmds.append(_img(w, h, s, img))
    return cmds, len(tuples)


@plan("C09")
def c09(tier, seed):
    run = Run("C09", tier, seed)
    rng = random.Random(seed)
    run.model_check_sharded("MCDeblock", nshards=16)
    if tier == "quick":
        vals = [0, 1, 11, 20, 64, 127, 128, 201, 254, 255]
        strengths = [1, 4, 9, 12]
        wmax, hmax, sset = 40, 40, [1, 4, 12]
    else:
        vals = [0, 1, 2, 5, 11, 20, 31, 64, 77, 100, 127, 128, 129, 180, 201, 240, 250, 253, 254, 255]
        strengths = list(range(1, 13))
        wmax, hmax, sset = 40, 40, list(range(1, 13))
    cmds, ntuples = _lane_images(vals, strengths, rng)
    n_lane = len(cmds)
    for w in range(1, wmax + 1):
        for h in range(0, hmax + 1):
            for s in sset:
                cmds.append(_img(w, h, s, rbytes(rng, w * h)))
                if (w + h + s) % 3 == 0:
                    cmds.append(_img(w, h, s, [255 * ((x + y) % 2) for y in range(h) for x in range(w)]))
    # a few larger images with several vector groups in both directions
    for (w, h) in [(64, 48), (83, 35), (35, 83)] + ([(176, 144), (177, 145)] if tier == "thorough" else []):
        cmds.append(_img(w, h, rng.randrange(1, 13), rbytes(rng, w * h)))
    rng.shuffle(cmds)
    run.drive_and_validate(cmds, "TraceDeblock", sample=3)
    run.evaluations = len(cmds)
    run.nontrivial = len(cmds)
    run.notes["kernel_tuples_x_strengths_placed_in_vector_and_scalar_lanes"] = ntuples * len(strengths)
    run.notes["lane_images"] = n_lane
    return run.finish(
        rule="(a) every 4-tuple over %d stratified sample values x %d strengths embedded in a horizontal-edge and in a "
             "vertical-edge quadruple, each once in a vector lane and once in a scalar-remainder lane; (b) every size "
             "1..%d x 0..%d x strengths %s with seeded random content and alternating 0/255 content; (c) larger images. "
             "TLC recomputes every output sample with Deblock!DeblockImage; images are distinct by construction."
             % (len(vals), len(strengths), wmax, hmax, sset))


@plan("C16")
def c16(tier, seed):
    run = Run("C16", tier, seed)
    rng = random.Random(seed)
    run.model_check_sharded("MCDeblock", nshards=16)
    wmax, hmax = (24, 24) if tier == "quick" else (72, 72)
    cmds = [{"op": "strength_table"}]
    for w in range(1, wmax + 1):
        for h in range(0, hmax + 1):
            for s in range(1, 13):
                # content: all-zero, uniform random, and the steepest edges there are (0 / 255 alternating by column, by row,
                # in a checkerboard, or drawn from {0, 255} at random) - "accepts every image" includes every content
                k = (w + 2 * h + 3 * s) % 6
                if k == 0:
                    data = [0] * (w * h)
                elif k == 1:
                    data = [255 * (x % 2) for y in range(h) for x in range(w)]
                elif k == 2:
                    data = [255 * (y % 2) for y in range(h) for x in range(w)]
                elif k == 3:
                    data = [rng.choice([0, 255]) for _ in range(w * h)]
                else:
                    data = rbytes(rng, w * h)
                cmds.append(_img(w, h, s, data))
    rng.shuffle(cmds)
    run.drive_and_validate(cmds, "TraceDeblock", sample=3)
    run.evaluations = len(cmds)
    run.nontrivial = len(cmds)
    run.exhaustive = True
    return run.finish(
        rule="exhaustive over widths 1..%d x heights 0..%d x strengths 1..12 (content all-zero, seeded random, and 0 / 255 alternating by column, by row or at "
             "random; calls in random order) plus the published QUANT_TO_STRENGTH table; the outcome must be a return equal to "
             "Deblock!DeblockImage and the table must equal Table J.2 as transcribed in Deblock!TableJ2" % (wmax, hmax))


# =========================================================================== C14
@plan("C14")
def c14(tier, seed):
    from . import readergen
    run = Run("C14", tier, seed)
    rng = random.Random(seed)
    # (a) the reader model, exhaustively: all op sequences of bounded length over small sources
    run.model_check("MCBitReader", "MCBitReader" if tier == "quick" else "MCBitReaderDeep", workers=16, xmx="8g",
                    timeout=1500)
    # (b) spec -> implementation: TLC-generated behaviours replayed into the real H263Reader
    nseeds, num = (8, 40) if tier == "quick" else (16, 1500)
    gens = run.generate_sim("MCBitReader", "MCBitReaderSim", num=num, depth=20,
                            seeds=[seed * 1000 + k for k in range(nseeds)])
    # (TLC evaluates the export invariant on every successor it generates, so each simulated trace
    # yields all one-step continuations of its prefix: all are behaviours of the model)
    cap = 8000 if tier == "quick" else 400000
    if len(gens) > cap:
        rng.shuffle(gens)
        gens = gens[:cap]
    cmds = [readergen.from_tlc(g) for g in gens]
    n_tlc = len(cmds)
    # (c) implementation -> spec: long seeded random operation sequences
    nrand, nops, maxb = (2500, 40, 12) if tier == "quick" else (150000, 120, 64)
    cmds += [readergen.random_seq(rng, rng.randrange(5, nops), rng.choice([3, 4, 6, maxb])) for _ in range(nrand)]
    run.drive_and_validate(cmds, "TraceBitReader", sample=3)
    run.evaluations = sum(len(c["ops"]) for c in cmds)
    run.nontrivial = len({json.dumps([c["src"], c["ops"]]) for c in cmds})
    run.notes["tlc_generated_behaviours_replayed"] = n_tlc
    run.notes["random_sequences"] = nrand
    run.notes["operations_validated"] = run.evaluations
    return run.finish(
        rule="model: exhaustive BFS of MCBitReader (all sources <= 3 bytes over a 4-byte alphabet, all op sequences of "
             "length <= %d, nesting <= 2) checking InOrderOnce, BufferAccounting, ResultsAreFaithful, RollbackRestores; "
             "implementation: every behaviour exported by TLC simulation of the same model plus seeded random sequences "
             "(<= %d ops, sources <= %d bytes, widths 0..33, six result types, two VLC tables, Table D.3 codes, growing "
             "source) replayed in the real H263Reader with nested closures; every result and a look-ahead probe after "
             "every operation validated by TraceBitReader; distinct = distinct (source, op list) pairs"
             % (3 if tier == "quick" else 4, nops, maxb))


# =========================================================================== decoder histories
from . import picgen as pg


class Hist:
    """builds commands for decoder histories; every history is one validation unit (group key "h")"""

    def __init__(self):
        self.cmds = []
        self.n = 0

    def new(self, sor=True, scal=False, maxread=0, noprobe=False):
        """noprobe: the driver does not look at the reader after each call (looking buffers the next bytes - itself a use of
        the reader between two calls); histories are run both ways"""
        self.n += 1
        c = {"op": "new", "d": 0, "sor": sor, "scal": scal, "h": self.n, "maxread": maxread}
        if noprobe:
            c["noprobe"] = True
        self.cmds.append(c)
        return self.n

    def decode(self, pic=None, **kw):
        c = {"op": "decode", "d": 0, "h": self.n}
        if pic is not None:
            c["pic"] = pic
        c.update(kw)
        self.cmds.append(c)

    def op(self, name, **kw):
        c = {"op": name, "d": 0, "h": self.n}
        c.update(kw)
        self.cmds.append(c)


def hkey(c):
    return c["h"]


def with_parse(cmds):
    """after every decode of a complete, valid picture also run the public parser functions alone on the same bytes
    (validated by TraceParse); "nmb" = number of real macroblocks present"""
    out = []
    for c in cmds:
        out.append(c)
        if c.get("op") == "decode" and "pic" in c and "opaque" not in c and not any(m.get("fault") for m in c["pic"]["mbs"]):
            real = sum(1 for m in c["pic"]["mbs"] if m["k"] != "stuff")
            if real == pg.nmb(c["pic"]):
                out.append({"op": "parse", "d": 0, "h": c["h"], "sor": c["pic"]["hk"] == "sor", "pic": c["pic"], "bytes": c["bytes"], "nmb": real})
    return out


def sor_hdr(rng, pt, tr, w, h, ver, q=None, **kw):
    return pg.header("sor", pt, tr=tr, q=q if q is not None else rng.randrange(1, 32), w=w, h=h, ver=ver, **kw)


def short_events():
    return [(last, run, lev) for (last, run), n in sorted(pg.SHORT_MAX.items()) for lev in range(1, n + 1)]


def one_mb_intra(rng, ver, q, cbpy, cbpc, t=3, blocks=None, dq=None, w=16, h=16, tr=0, hk="sor", **hkw):
    """a 1-macroblock intra picture with explicit blocks (list of 6 {dc, ev}) or random ones"""
    hdr = pg.header(hk, "I", tr=tr, q=q, w=w, h=h, ver=ver, **hkw)
    ver1 = hk == "sor" and ver == 1
    mb = pg.coded_mb(rng, t, ver1, cbpc=cbpc, cbpy=cbpy, dq=dq, big=False)
    if blocks is not None:
        mb["b"] = blocks
    p = dict(hdr)
    p["mbs"] = [mb]
    return p


# =========================================================================== C02
@plan("C02")
def c02(tier, seed):
    run = Run("C02", tier, seed)
    rng = random.Random(seed)
    run.model_check("MCTables", workers=4)
    H = Hist()

    def single(pic, sor=True):
        H.new(sor=sor)
        H.decode(pic)

    # (a) every coded-block pattern, both Sorenson versions
    for ver in (0, 1):
        for cbpy in range(16):
            for cbpc in range(4):
                single(one_mb_intra(rng, ver, rng.randrange(1, 32), cbpy, cbpc, t=rng.choice([3, 4])))
    # (b) every INTRADC code (six per picture)
    codes = [c for c in range(1, 256) if c != 128]
    for i in range(0, len(codes), 6):
        grp = (codes[i:i + 6] + codes[:6])[:6]
        blocks = [{"dc": c, "ev": []} for c in grp]
        single(one_mb_intra(rng, i % 2, rng.randrange(1, 32), 0, 0, blocks=blocks))
    # (c) every Table 16 event as first / middle / last event of a block
    evs = short_events()
    blks = []
    for (last, run_, lev) in evs:
        for sgn in (1, -1):
            e = [last, run_, sgn * lev, 0]
            if last == 1:
                if run_ + 1 <= 63:
                    blks.append([e])
                if run_ + 2 <= 62:
                    blks.append([[0, 0, 2, 0], e])
            else:
                if run_ + 2 <= 62:
                    blks.append([e, [1, 0, 1, 0]])
                    blks.append([[0, 1, -1, 0], e, [1, 2, 1, 0]] if run_ + 6 <= 62 else [e, [1, 0, -1, 0]])
    for i in range(0, len(blks), 6):
        grp = (blks[i:i + 6] + blks[:6])[:6]
        blocks = [{"dc": pg.rand_dc(rng), "ev": e} for e in grp]
        single(one_mb_intra(rng, (i // 6) % 2, rng.choice([1, 2, 5, 8, 13, 31]), 15, 3, blocks=blocks))
    # (d) escapes at boundary levels, all three forms, boundary quantizers
    for ver in (0, 1):
        levels = [1, 2, 63, 64, 100, 127] if ver == 0 else [1, 2, 62, 63, 64, 127, 128, 300, 528, 529, 1000, 1023]
        for q in ([1, 2, 3, 30, 31] if tier == "quick" else list(range(1, 32))):
            for i in range(0, len(levels), 3):
                blocks = []
                for lev in (levels[i:i + 3] + levels[:3])[:3]:
                    for sgn in (1, -1):
                        form = 1 if (ver == 0 or lev <= 63) else 2
                        blocks.append({"dc": pg.rand_dc(rng), "ev": [[1, rng.randrange(0, 20), sgn * lev, form]]})
                single(one_mb_intra(rng, ver, q, 15, 3, blocks=blocks))
    # (e) DQUANT sequences over two macroblocks
    for q in [1, 2, 3, 15, 30, 31]:
        for dq in [-2, -1, 1, 2]:
            for ver in (0, 1):
                hdr = pg.header("sor", "I", tr=0, q=q, w=32, h=16, ver=ver)
                p = dict(hdr)
                p["mbs"] = [pg.coded_mb(rng, 4, ver == 1, dq=dq, big=False), pg.coded_mb(rng, rng.choice([3, 4]), ver == 1, big=False)]
                single(p)
    # ... and over three macroblocks at the edges of 1..31: the value carried on after a clip is the clipped one
    for q in [1, 2, 30, 31]:
        for dq1 in [-2, -1, 1, 2]:
            for dq2 in [-2, -1, 1, 2]:
                ver = (q + dq1 + dq2) % 2
                hdr = pg.header("sor", "I", tr=0, q=q, w=48, h=16, ver=ver)
                p = dict(hdr)
                p["mbs"] = [pg.coded_mb(rng, 4, ver == 1, dq=dq1, big=False, shape="dense"), pg.coded_mb(rng, 4, ver == 1, dq=dq2, big=False, shape="dense"),
                            pg.coded_mb(rng, 3, ver == 1, big=False, shape="dense")]
                single(p)
    # (f) every sparsity shape, (g) stuffing and extra-information bytes
    for shape in ["one", "row", "col", "dense", "sparse"]:
        for ver in (0, 1):
            for k in range(3):
                hdr = pg.header("sor", "I", tr=k, q=rng.randrange(1, 32), w=32, h=32, ver=ver, pei=rbytes(rng, k))
                single(pg.intra_picture(rng, hdr, shape=shape, stuffing=0.3 if k else 0.0, big=False))
    # (h) every size 1..17 x 1..17 and a few larger ones
    sizes = [(w, h) for w in range(1, 18) for h in range(1, 18)] + [(17, 3), (33, 16), (16, 33), (48, 48), (255, 1), (1, 255)]
    for i, (w, h) in enumerate(sizes):
        single(pg.intra_picture(rng, sor_hdr(rng, "I", i % 256, w, h, i % 2), big=False))
    # 16-bit custom size code and the fixed size codes of the Sorenson header
    single(pg.intra_picture(rng, sor_hdr(rng, "I", 1, 40, 24, 1, sc=1), big=False))
    for sc in ([4, 6] if tier == "quick" else [2, 3, 4, 5, 6]):
        single(pg.intra_picture(rng, sor_hdr(rng, "I", 2, 0, 0, rng.randrange(2), sc=sc), big=False, shape="sparse"))
    # (i) standard H.263: custom-format PLUSPTYPE headers and baseline headers
    for (w, h) in [(16, 16), (20, 12), (36, 20), (4, 4), (64, 48)]:
        single(pg.intra_picture(rng, pg.header("plus", "I", tr=rng.randrange(256), q=rng.randrange(1, 32), w=w, h=h), big=False), sor=False)
    single(pg.intra_picture(rng, pg.header("base", "I", tr=3, q=rng.randrange(1, 32), fmt=1), big=False, shape="sparse"), sor=False)
    if tier == "thorough":
        single(pg.intra_picture(rng, pg.header("base", "I", tr=4, q=rng.randrange(1, 32), fmt=2), big=False, shape="sparse"), sor=False)
    # (j) random pictures with dense events and the full level range
    nrand, maxdim = (120, 64) if tier == "quick" else (10000, 128)
    for i in range(nrand):
        w, h = rng.randrange(1, maxdim + 1), rng.randrange(1, maxdim + 1)
        single(pg.intra_picture(rng, sor_hdr(rng, "I", i % 256, w, h, i % 2), stuffing=0.05))
    if tier == "thorough":
        for (w, h, sc) in [(176, 144, 3), (352, 288, 2)]:
            single(pg.intra_picture(rng, sor_hdr(rng, "I", 9, w, h, 1, sc=sc)))
    # (k) the same holds at every position of a decoder's history: runs of intra pictures on ONE decoder (equal and changing
    #     sizes, also equal area with a different shape; distinct, repeated and wrapped temporal references; explicit
    #     clean-ups and rejected calls in between) - an intra picture owes nothing to what was decoded before it
    shapes = [(16, 16), (40, 24), (24, 8), (8, 24), (12, 16), (33, 17), (17, 33), (6, 4), (3, 8), (48, 16)]
    nhist = 14 if tier == "quick" else 400
    for i in range(nhist):
        std = i % 5 == 4
        ver = rng.randrange(2)
        H.new(sor=not std)
        w, h = rng.choice(shapes)
        for k in range(rng.randrange(4, 8)):
            if rng.random() < 0.3:
                w, h = rng.choice(shapes)
            tr = rng.choice([k, k, 0, 7, 255, rng.randrange(256)])
            if std:
                hdr = pg.header("plus", "I", tr=tr, q=rng.randrange(1, 32), w=4 * ((w + 3) // 4), h=4 * ((h + 3) // 4))
            else:
                hdr = sor_hdr(rng, "I", tr, w, h, ver)
            if i % 2:
                H.op("newreader")       # odd histories: one reader per call; even ones: one stream
            H.decode(pg.intra_picture(rng, hdr, big=False, shape=rng.choice(["one", "sparse", "row", "dense"])))
            r = rng.random()
            if r < 0.2:
                H.op("cleanup")
            elif r < 0.3 and i % 2:
                H.op("newreader")
                H.decode(None, bytes=rng.choice(GARBAGE), why="garbage")
    npics = sum(1 for c in H.cmds if "pic" in c)
    enc = with_parse(run.encode(H.cmds))
    run.drive_and_validate(enc, "TraceDecoder", group=hkey, sample=2, also=["TraceParse"])
    run.evaluations = npics
    run.nontrivial = npics
    run.notes["intra_pictures"] = npics
    run.notes["intra_histories"] = nhist
    return run.finish(
        rule="intra pictures as abstract values (Picture.tla): all 64 coded-block patterns x 2 Sorenson versions, all 254 "
             "INTRADC codes, all 102 Table-16 events x sign as first/middle/last event, escapes in the 7/8/11-bit forms at "
             "boundary levels x boundary quantizers, DQUANT sequences, five sparsity shapes, stuffing, 0..2 extra-information "
             "bytes, every size 1..17 x 1..17 plus larger and fixed-size codes, standard-mode PLUSPTYPE and baseline headers, "
             "seeded random pictures, and runs of 4-7 intra pictures on ONE decoder (changing sizes incl. equal area, repeated TRs, "
             "clean-ups and rejected calls in between); TLC encodes each to bytes, the real decoder decodes them, TLC recomputes every "
             "sample (zig-zag, dequantisation, wide-integer ideal IDCT with +-1 only inside the eps(F) boundary band) and "
             "compares planes, sizes, header and reader position; distinct = pictures")


# =========================================================================== C03
VEC = [-32, -31, -16, -1, 0, 1, 15, 31]


@plan("C03")
def c03(tier, seed):
    run = Run("C03", tier, seed)
    rng = random.Random(seed)
    run.model_check("MCTables", workers=4)
    H = Hist()

    def start(w, h, ver, sor=True, hk="sor"):
        H.new(sor=sor)
        if hk == "sor":
            H.decode(pg.intra_picture(rng, sor_hdr(rng, "I", 0, w, h, ver), big=False, shape="dense"))
        else:
            H.decode(pg.intra_picture(rng, pg.header(hk, "I", tr=0, q=rng.randrange(1, 32), w=w, h=h), big=False, shape="dense"))

    # (a) a predicted picture without any reference must be rejected
    for ver in (0, 1):
        H.new()
        H.decode(pg.inter_picture(rng, sor_hdr(rng, "P", 1, 16, 16, ver), big=False))
        H.decode(pg.inter_picture(rng, sor_hdr(rng, "D", 2, 16, 16, ver), pt="D", mix=[1, 0, 0, 0, 0, 0, 0]))
        # ... also when the data ends early (the macroblocks that are missing are predicted ones): a header alone, and INTRA
        # macroblocks only up to the cut
        for cut in (0, 1, 2, 5):
            for t in ("P", "D"):
                H.new()
                H.decode(pg.inter_picture(rng, sor_hdr(rng, t, 3, 48, 32, ver), pt=t, truncate_after=cut, big=False, mix=[0, 0, 0, 0, 3, 1, 0]))
                H.op("newreader")
                H.decode(pg.intra_picture(rng, sor_hdr(rng, "I", 4, 48, 32, ver), big=False, shape="one"))
    # (b) every macroblock-type mix on up to three macroblocks, vectors crossing every edge, all half-sample phases
    kinds = ["skip", 0, 1, 2, 3, 4, 5]
    mixes = [(a,) for a in kinds] + [(a, b) for a in kinds for b in kinds]
    if tier == "thorough":
        mixes += [(a, b, c) for a in kinds for b in kinds for c in kinds]
    else:
        mixes += [tuple(rng.choice(kinds) for _ in range(3)) for _ in range(40)]
    for i, mix in enumerate(mixes):
        ver = i % 2
        n = len(mix)
        w, h = rng.choice([(16 * n, 16), (16 * n - 3, 13)] + ([(16, 16 * n), (9, 16 * n - 5)] if n > 1 else []))
        if pg.mbw(w) * ((h + 15) // 16) != n:
            w, h = 16 * n, 16
        start(w, h, ver)
        for rep in range(2):
            p = dict(sor_hdr(rng, "P", rep + 1, w, h, ver))
            mbs = []
            for k in mix:
                if k == "skip":
                    mbs.append({"k": "skip"})
                else:
                    nmv = 0 if k in (3, 4) else (4 if k in (2, 5) else 1)
                    mvd = [[rng.choice(VEC), rng.choice(VEC)] for _ in range(nmv)]
                    mbs.append(pg.coded_mb(rng, k, ver == 1, mvd=mvd, big=False))
            p["mbs"] = mbs
            H.decode(p)
    # (b') predicted pictures enumerated by TLC itself: GenPictures.tla appends one macroblock per action (type x pattern
    #      class x differential x DQUANT); every two-macroblock picture of that model is exported (298^2 = 88 804)
    tlc_pics = run_gen_bfs(run, "MCGenPictures", "MCGenPictures")
    run.notes["pictures_enumerated_by_tlc"] = len(tlc_pics)
    if tier == "quick":
        rng.shuffle(tlc_pics)
        tlc_pics = tlc_pics[:1500]
    for i, g in enumerate(tlc_pics):
        if i % 25 == 0:
            start(32, 16, 0)        # a fresh reference every 25 pictures; in between the chain continues
        p = dict(sor_hdr(rng, "P", (i % 250) + 1, 32, 16, 0))
        p["mbs"] = g["mbs"]
        H.decode(p)
    # (c) truncation after every macroblock of a 3x2 picture; sizes that are not multiples of 16
    for ver in (0, 1):
        for cut in range(0, 7):
            start(40, 24, ver)
            H.decode(pg.inter_picture(rng, sor_hdr(rng, "P", 1, 40, 24, ver), truncate_after=cut, big=False))
            H.decode(pg.inter_picture(rng, sor_hdr(rng, "P", 2, 40, 24, ver), big=False))
            # the same after a disposable picture: the macroblocks that are missing are predicted from the REFERENCE, which is
            # then not the picture decoded last (also for a disposable picture cut short itself)
            start(40, 24, ver)
            H.decode(pg.inter_picture(rng, sor_hdr(rng, "D", 1, 40, 24, ver), pt="D", big=False, mix=[0, 5, 1, 2, 1, 0, 1]))
            t = "P" if cut % 2 == 0 else "D"
            H.decode(pg.inter_picture(rng, sor_hdr(rng, t, 2, 40, 24, ver), pt=t, truncate_after=cut, big=False))
            H.decode(pg.inter_picture(rng, sor_hdr(rng, "P", 3, 40, 24, ver), big=False))
    # (d) chains of predicted pictures on larger grids: all differentials uniformly, dense residuals
    nrand, maxmb = (60, (4, 3)) if tier == "quick" else (5000, (6, 5))
    for i in range(nrand):
        w = rng.randrange(1, 16 * maxmb[0] + 1)
        h = rng.randrange(1, 16 * maxmb[1] + 1)
        ver = i % 2
        start(w, h, ver)
        for k in range(rng.randrange(1, 5)):
            H.decode(pg.inter_picture(rng, sor_hdr(rng, "P", k + 1, w, h, ver), stuffing=0.05,
                                      truncate_after=(rng.randrange(0, pg.mbw(w) * ((h + 15) // 16) + 1) if rng.random() < 0.15 else None)))
    # (e) standard mode (custom-format PLUSPTYPE headers)
    for (w, h) in [(16, 16), (36, 20), (64, 48)]:
        start(w, h, 0, sor=False, hk="plus")
        for k in range(2):
            H.decode(pg.inter_picture(rng, pg.header("plus", "P", tr=k + 1, q=rng.randrange(1, 32), w=w, h=h), big=False))
    # (f) standard mode error concealment (beyond the property): a macroblock header that is no code word ends the picture
    #     there - the rest is copied from the reference and the reader stays at the offending macroblock
    for (w, h) in [(32, 32), (36, 20), (64, 48)]:
        for fault in ("mcbpc", "cbpy"):
            for rep in range(2 if tier == "quick" else 12):
                start(w, h, 0, sor=False, hk="plus")
                p = pg.inter_picture(rng, pg.header("plus", "P", tr=1, q=rng.randrange(1, 32), w=w, h=h), big=False)
                idx = [i for i, m in enumerate(p["mbs"]) if m["k"] == "mb"]
                i = rng.choice(idx)
                p["mbs"] = p["mbs"][:i + 1]
                p["mbs"][i]["fault"] = fault
                H.op("newreader")
                H.decode(p)
                H.op("newreader")
                H.decode(pg.inter_picture(rng, pg.header("plus", "P", tr=2, q=rng.randrange(1, 32), w=w, h=h), big=False))
    npics = sum(1 for c in H.cmds if "pic" in c)
    enc = with_parse(run.encode(H.cmds))
    run.drive_and_validate(enc, "TraceDecoder", group=hkey, sample=2, also=["TraceParse"])
    run.evaluations = npics
    run.nontrivial = npics
    run.notes["pictures"] = npics
    return run.finish(
        rule="histories I, P, P...: every macroblock-type mix over {not-coded, INTER, INTER+Q, INTER4V, INTRA, INTRA+Q, "
             "INTER4V+Q} on 1 and 2 macroblocks (3 in thorough / sampled in quick) with differentials from {-16, -15.5, -8, "
             "-0.5, 0, 0.5, 7.5, 15.5}^2, sizes not multiples of 16, truncation after every macroblock (also after a disposable "
             "picture), predicted pictures without reference incl. header-only and INTRA-only truncated ones (must be rejected), every "
             "two-macroblock picture enumerated by TLC (GenPictures), random chains on larger grids with uniformly drawn differentials, and "
             "standard-mode pictures; references are what the real decoder produced (adopted); TLC recomputes vectors "
             "(median prediction, wrap), chroma vectors, bilinear prediction with edge clamp, residuals, and compares planes")


def concat_delivery(cmds):
    """histories whose "new" command carries "concat": all pictures' bytes are appended to the reader before
    the first decode call; the decode calls then carry "pre": true"""
    out, i = [], 0
    while i < len(cmds):
        c = cmds[i]
        if c["op"] == "new" and c.get("concat"):
            j = i + 1
            allb = []
            while j < len(cmds) and cmds[j]["h"] == c["h"]:
                if cmds[j]["op"] == "decode":
                    allb += cmds[j]["bytes"]
                    cmds[j]["pre"] = True
                j += 1
            out.append(c)
            out.append({"op": "append", "d": 0, "h": c["h"], "bytes": allb})
            out += cmds[i + 1:j]
            i = j
        else:
            out.append(c)
            i += 1
    return out


# =========================================================================== C15
@plan("C15")
def c15(tier, seed):
    run = Run("C15", tier, seed)
    rng = random.Random(seed)
    run.model_check("MCTables", workers=4)
    H = Hist()
    sizes = [(16, 16), (17, 3), (33, 16)]
    seqs = []
    types = ["I", "P", "D"]
    # every sequence of 1..3 picture types starting with I (4 in thorough), x size x Sorenson version / standard mode
    def rec(prefix, n):
        if len(prefix) == n:
            seqs.append(list(prefix))
            return
        for t in types:
            rec(prefix + [t], n)
    for n in ([1, 2, 3] if tier == "quick" else [1, 2, 3, 4, 5]):
        rec(["I"], n)
    for ts in seqs:
        for (w, h) in sizes:
            for mode in ("sor0", "sor1", "plus"):
                if mode == "plus" and ("D" in ts or (w, h) == (17, 3) or (w, h) == (33, 16)):
                    continue
                pics = []
                for k, t in enumerate(ts):
                    # extra-information bytes lengthen the header, stuffing code words lengthen the macroblock data: where a
                    # picture ends must not depend on either
                    pei = rbytes(rng, rng.choice([0, 0, 1, 2, 3]))
                    stuff = rng.choice([0.0, 0.0, 0.3, 0.6])
                    if mode == "plus":
                        hdr = pg.header("plus", t, tr=k, q=rng.randrange(1, 32), w=w, h=h, pei=pei)
                    else:
                        hdr = sor_hdr(rng, t, k, w, h, int(mode[-1]), pei=pei)
                    pics.append(pg.intra_picture(rng, hdr, big=False, shape="sparse", stuffing=stuff) if t == "I"
                                else pg.inter_picture(rng, hdr, pt=t, big=False, shape="sparse", stuffing=stuff,
                                                      mix=rng.choice([None, None, [8, 1, 0, 0, 0, 0, 0], [0, 3, 1, 1, 1, 1, 1]])))
                for concat in (True, False):
                    H.new(sor=(mode != "plus"), maxread=rng.choice([0, 0, 0, 1, 2, 4]), noprobe=(concat and rng.random() < 0.5))
                    H.cmds[-1]["concat"] = concat
                    for p in pics:
                        if not concat:
                            H.op("newreader")
                        H.decode(json.loads(json.dumps(p)))
    # longer random sequences in one reader
    for i in range(30 if tier == "quick" else 5000):
        w, h = rng.choice([(16, 16), (17, 3), (33, 16), (48, 32), (5, 5)])
        ver = rng.randrange(2)
        H.new(noprobe=(i % 2 == 1))
        H.cmds[-1]["concat"] = True
        for k in range(rng.randrange(2, 9)):
            t = "I" if k == 0 else rng.choice(types)
            hdr = sor_hdr(rng, t, k, w, h, ver, pei=rbytes(rng, rng.choice([0, 0, 0, 1, 2])))
            stuff = rng.choice([0.0, 0.0, 0.2, 0.5])
            H.decode(pg.intra_picture(rng, hdr, big=False, stuffing=stuff) if t == "I"
                     else pg.inter_picture(rng, hdr, pt=t, big=False, stuffing=stuff, mix=rng.choice([None, None, [8, 1, 0, 0, 0, 0, 0]])))
    # a picture whose LAST macroblock is as short as a macroblock can be (INTER, nothing coded, differential 0 or +-0.5), so
    # that only a few bits and the padding separate it from the end of the data, at every alignment - alone in its reader
    # (nothing follows) and followed by another picture
    for i in range(48 if tier == "quick" else 600):
        ver = i % 2
        for concat in (False, True):
            H.new()
            H.cmds[-1]["concat"] = concat
            H.decode(pg.intra_picture(rng, sor_hdr(rng, "I", 0, 32, 16, ver), big=False, shape="dense"))
            if not concat:
                H.op("newreader")
            hdr = sor_hdr(rng, "P", 1, 32, 16, ver, pei=rbytes(rng, i % 3))
            p = dict(hdr)
            p["mbs"] = [pg.coded_mb(rng, rng.choice([0, 0, 2, 3]), ver == 1, big=False) if i % 4 else {"k": "skip"},
                        pg.coded_mb(rng, 0, ver == 1, cbpc=0, cbpy=0, mvd=[[rng.choice([0, 1, -1, 1]), rng.choice([0, 0, 1])]], big=False)]
            H.decode(p)
            if concat:
                H.decode(pg.inter_picture(rng, sor_hdr(rng, "P", 2, 32, 16, ver), big=False, shape="sparse"))
    # long streams: several thousand bytes through ONE reader (whatever the reader keeps of what it has consumed must not
    # matter, however much that is); every call must succeed and report its own header
    for mi, mode in enumerate(["sor", "plus", "sor", "plus"] if tier == "quick" else ["sor", "plus", "sor", "plus", "sor", "sor", "plus", "sor"]):
        H.new(sor=(mode == "sor"), noprobe=(mi < 2))
        H.cmds[-1]["concat"] = True
        ver = rng.randrange(2)
        for k in range(170 if tier == "quick" else 600):
            t = "I" if k % 25 == 0 else "P"
            hdr = sor_hdr(rng, t, k % 256, 16, 16, ver) if mode == "sor" else pg.header("plus", t, tr=k % 256, q=rng.randrange(1, 32), w=16, h=16)
            pic = pg.intra_picture(rng, hdr, big=False, shape="dense") if t == "I" else pg.inter_picture(rng, hdr, big=False, shape="dense", mix=[0, 4, 1, 2, 1, 1, 1])
            H.decode(pic, opaque=True, expect="ok", planes=False, why="long-stream")
    npics = sum(1 for c in H.cmds if c["op"] == "decode")
    enc = concat_delivery(run.encode(H.cmds))
    run.notes["longest_stream_bytes"] = max([len(c["bytes"]) for c in enc if c["op"] == "append"] + [0])
    run.drive_and_validate(enc, "TraceDecoder", group=hkey, sample=2)
    run.evaluations = npics
    run.nontrivial = H.n
    run.notes["sequences"] = H.n
    run.notes["decode_calls"] = npics
    return run.finish(
        rule="every sequence of 1..%d pictures I{I,P,D}* x sizes {16x16, 17x3, 33x16} x {Sorenson v0, v1, standard custom-format} "
             "delivered (a) concatenated in one reader with all bytes present before the first call and (b) one reader per "
             "picture, plus random longer concatenated sequences, pictures ending in the shortest possible macroblock at every "
             "alignment, and streams of 170+ pictures (about 25000 bytes) through one reader; stuffing and extra-information bytes "
             "drawn for every picture; histories run with and without the reader probe; both deliveries are validated in pixel mode against the same "
             "model and after every call the reader probe must equal the stream at the end of that picture's macroblock data"
             % (3 if tier == "quick" else 4))


def decode_stat(ev):
    """coverage classes: outcome of each decode call by kind of input"""
    if ev.get("op") != "decode":
        return None
    kind = ev.get("why") or ("pixel-" + ev["pic"]["pt"] if "pic" in ev and "opaque" not in ev else "opaque")
    ret = ev.get("ret", "?")
    return "%s => %s" % (kind, ret if ret.startswith("err") or ret == "ok" else ret.split(":")[0])


# =========================================================================== C06
def encode_headers(run, cmds):
    nsh = min(core.NCPU, max(1, len(cmds) // 200))
    chunks = [cmds[i::nsh] for i in range(nsh)]

    def one(k):
        inp = os.path.join(run.work, "hdr-in-%d.ndjson" % k)
        outp = os.path.join(run.work, "hdr-out-%d.ndjson" % k)
        with open(inp, "w") as f:
            for c in chunks[k]:
                f.write(json.dumps(c, separators=(",", ":")) + "\n")
        r = core.run_tlc("EncodeHeaders", env={"IN": inp, "OUT": outp}, workdir=run.work)
        res = [json.loads(x) for x in open(outp)] if os.path.exists(outp) else []
        return r, res
    import concurrent.futures as cf
    with cf.ThreadPoolExecutor(core.NCPU) as ex:
        rs = list(ex.map(one, range(nsh)))
    out = [None] * len(cmds)
    for k, (r, res) in enumerate(rs):
        run.states += r.distinct
        run.transitions += r.generated
        if r.error or len(res) != len(chunks[k]):
            run.tool_errors.append("EncodeHeaders: %s\n%s" % (r.error, r.raw_tail))
            continue
        for j, c in enumerate(res):
            out[k + j * nsh] = c
    return [c for c in out if c is not None]


def header_stat(ev):
    h = ev.get("hdr", {})
    kind = h.get("k", "?")
    if kind == "std":
        kind = "plus-ufep%d" % h.get("ufep", 9) if h.get("fmt") == 7 else "baseline"
    if "bad" in h:
        kind += "-malformed"
    return "%s => %s" % (kind, ev.get("rc"))


@plan("C06")
def c06(tier, seed):
    from . import hdrgen
    run = Run("C06", tier, seed)
    rng = random.Random(seed)
    run.model_check("MCHeader", workers=4)
    thorough = tier == "thorough"
    cmds = hdrgen.sweeps(rng, thorough)
    n_sweep = len(cmds)
    cmds += hdrgen.inheritance(rng, 600 if not thorough else 60000)
    cmds += hdrgen.randoms(rng, 4000 if not thorough else 400000)
    enc = encode_headers(run, cmds)
    run.drive_and_validate(enc, "TraceHeader", sample=3, stat_fn=header_stat)
    # a decoded picture reports the header it was decoded from and has exactly its width and height
    H = Hist()
    for i in range(60 if not thorough else 600):
        w, h = rng.randrange(1, 80), rng.randrange(1, 40)
        ver = rng.randrange(2)
        H.new()
        hdr = pg.header("sor", "I", tr=rng.randrange(256), q=rng.randrange(1, 32), w=w, h=h, ver=ver, db=rng.randrange(2),
                        pei=rbytes(rng, rng.randrange(3)), sc=rng.choice([0, 1]) if w < 256 and h < 256 else 1)
        H.decode(pg.intra_picture(rng, hdr, big=False, shape="one"))
        H.op("newreader")
        pt2 = rng.choice(["P", "D"])
        H.decode(pg.inter_picture(rng, pg.header("sor", pt2, tr=rng.choice([hdr["tr"], hdr["tr"], rng.randrange(256)]), q=rng.randrange(1, 32),
                                                 w=w, h=h, ver=ver, db=rng.randrange(2)), pt=pt2, big=False, shape="one"))
    # a predicted picture that carries its own (different) size and needs no prediction (every macroblock INTRA) is decoded
    # at ITS header's size, not at the size of the picture before it
    for i in range(12 if not thorough else 200):
        ver = rng.randrange(2)
        w, h = rng.choice([(16, 16), (32, 16), (17, 9), (40, 24)])
        w2, h2 = rng.choice([(32, 16), (16, 32), (48, 16), (16, 8), (9, 17), (24, 40)])
        H.new()
        H.decode(pg.intra_picture(rng, sor_hdr(rng, "I", 1, w, h, ver), big=False, shape="one"))
        H.op("newreader")
        pt2 = rng.choice(["P", "P", "D"])
        H.decode(pg.inter_picture(rng, sor_hdr(rng, pt2, 2, w2, h2, ver), pt=pt2, big=False, shape="one", mix=[0, 0, 0, 0, 3, 1, 0]))
    # standard mode: pictures whose header does not retransmit OPPTYPE (UFEP = 000) have the size of the picture before
    # them - also when that picture inherited its size itself (chains), and after a baseline header
    for i in range(24 if not thorough else 400):
        H.new(sor=False)
        if i % 6 == 5:
            first = pg.header("base", "I", tr=rng.randrange(256), q=rng.randrange(1, 32), fmt=1)
        else:
            first = pg.header("plus", "I", tr=rng.randrange(256), q=rng.randrange(1, 32), w=4 * rng.randrange(1, 14), h=4 * rng.randrange(1, 10))
        w, h = pg.dims(first)
        H.decode(pg.intra_picture(rng, first, big=False, shape="one"))
        for k in range(rng.randrange(2, 6)):
            H.op("newreader")
            hdr = pg.header("plus", "P", tr=rng.randrange(256), q=rng.randrange(1, 32), w=w, h=h, pei=rbytes(rng, rng.randrange(2)))
            if rng.random() < 0.7:
                hdr["ufep0"] = 1
            elif i % 6 == 5:        # after a baseline header the size is retransmitted by a baseline header (the same size sent
                #                     as a custom format is a different source format: not claimed either way)
                hdr = pg.header("base", "P", tr=rng.randrange(256), q=rng.randrange(1, 32), fmt=1, pei=rbytes(rng, rng.randrange(2)))
            elif rng.random() < 0.5 and i % 6 != 5:      # a retransmitted, different size needs a new intra picture first
                w, h = 4 * rng.randrange(1, 14), 4 * rng.randrange(1, 10)
                H.decode(pg.intra_picture(rng, pg.header("plus", "I", tr=rng.randrange(256), q=rng.randrange(1, 32), w=w, h=h), big=False, shape="one"))
                H.op("newreader")
                hdr["w"], hdr["h"] = w, h
            H.decode(pg.inter_picture(rng, hdr, mix=[8, 2, 1, 1, 1, 0, 0], big=False, shape="one"))
    # ... and every history of the size model (Format.tla: intra / predicted picture x transmits size A, size B or none;
    # length 4, 5 in thorough) exported by TLC and replayed: the model says which calls must be accepted and at which size,
    # TraceDecoder demands the same of the code (FormatKnown, ExpectOk) and compares every picture in pixel mode
    run.model_check("MCFormat", "MCFormat-current", workers=2)
    #     ... for histories of ANY length: inductive invariant discharged by Apalache (base, step, and IndInit is satisfiable)
    ind = []
    for name, args in (("base", ["--init=Init", "--inv=IndInv", "--length=0"]), ("step", ["--init=IndInit", "--inv=IndInv", "--length=1"]),
                       ("indinit-satisfiable", ["--init=IndInit", "--inv=NotVacuous", "--length=0"])):
        outcome, secs, tail = core.run_apalache("FormatInd", args, run.work)
        want = "Error" if name == "indinit-satisfiable" else "NoError"
        ind.append({"obligation": name, "outcome": outcome, "expected": want, "wall_s": round(secs, 1)})
        if outcome != want:
            if outcome == "Error" and name in ("base", "step"):
                run.impl_diags.append(({"l": 0, "cls": "IMPL", "what": "inductive-invariant-violated", "sig": "size-model-invariant-not-inductive",
                                        "detail": name}, [{"op": "model", "module": "FormatInd", "args": args}]))
            else:
                run.tool_errors.append("apalache %s: outcome %s\n%s" % (name, outcome, tail))
    run.notes["apalache_inductive_invariant_size_model"] = ind
    fgens = run_gen_bfs(run, "MCFormat", "MCFormatGen" if not thorough else "MCFormatGen5")
    fgens = [g for g in fgens if not any(o[0] == "I" and o[1] == 0 for o in g["ops"])]      # an intra picture without a size is
    run.notes["size_model_histories_replayed"] = len(fgens)                                   # no valid picture: not claimed
    size_of = {1: (16, 16), 2: (32, 16)}
    for g in fgens:
        H.new(sor=False)
        have = 0
        for (kind, sent, verdict, rs) in g["ops"]:
            H.op("newreader")
            w, h = size_of[sent] if sent else (size_of[have] if have else (16, 16))
            hdr = pg.header("plus", kind, tr=rng.randrange(256), q=rng.randrange(1, 32), w=w, h=h)
            if not sent:
                hdr["ufep0"] = 1
            if kind == "I":
                H.decode(pg.intra_picture(rng, hdr, big=False, shape="one"))
            else:
                p = pg.inter_picture(rng, hdr, big=False, shape="one", mix=[6, 3, 0, 1, 0, 0, 0])
                if not any(m["k"] == "skip" for m in p["mbs"]):
                    p["mbs"][-1] = {"k": "skip"}
                H.decode(p)
            if verdict == "ok":
                have = rs
    # extreme aspect ratios of the 16-bit size code (opaque mode: outcome, shapes and the reported size are checked)
    for (w, h) in [(65535, 1), (1, 65535), (65521, 16), (65520, 1), (16, 65521), (4095, 17), (32768, 2)]:
        H.new()
        hdr = pg.header("sor", "I", tr=rng.randrange(256), q=rng.randrange(1, 32), w=w, h=h, ver=rng.randrange(2), sc=1)
        H.decode(pg.intra_picture(rng, hdr, big=False, shape="one", dquant=False), opaque=True, planes=False, expect="ok", why="extreme-size")
    enc2 = run.encode(H.cmds)
    run.drive_and_validate(enc2, "TraceDecoder", group=hkey, sample=1)
    run.evaluations = len(cmds) + len(H.cmds)
    run.nontrivial = len({json.dumps(c["hdr"], sort_keys=True) for c in cmds})
    run.notes["per_field_sweep_headers"] = n_sweep
    run.notes["headers"] = len(cmds)
    run.assumptions = ["headers with the RPR flag (RPRP follows) or BCI = 1 (a back-channel message follows) are not generated: the "
                       "decoder reports those Annex N / P structures as unimplemented and the property does not list them",
                       "ELNUM / RLNUM are generated only with PLUSPTYPE headers"]
    return run.finish(
        rule="abstract headers (PictureHeader.tla) encoded by TLC, parsed by the real parser::decode_picture, every public field "
             "and the bits consumed (probe of the 24 bits that follow) compared by TLC: per-field exhaustive sweeps at two base "
             "settings - Sorenson: 32 versions, 256 TR, 8 size codes, all 8-bit widths/heights, %s 16-bit sizes, type x deblock, "
             "32 quantizers, 0..3 PEI bytes; baseline: 32 low PTYPE patterns x 6 formats x 8 high flags, CPM/PSBI, TRB/DBQUANT; "
             "PLUSPTYPE: all 2^10 OPPTYPE mode patterns, 8 types x MPPTYPE flags, %s CPFMT indications, 16 PAR codes + EPAR, 256 "
             "CPCFC x 4 ETR, UUI, 4 SSS, CPM/PSBI, 16 x 16 ELNUM/RLNUM under scalability, 8 RPSMF, TRPI/TRP, TRB 3/5 bits; every "
             "single-marker malformation (must be rejected); UFEP=000 headers after arbitrary previous modes (inheritance); random "
             "cross products; plus decoded pictures reporting their header and size: Sorenson I/P/D, extreme aspect ratios, predicted "
             "pictures carrying another size, standard-mode chains of UFEP=000 pictures, and every history of the size model "
             "(Format.tla) exported by TLC; distinct = distinct abstract headers"
             % ("all 65536" if thorough else "1024 stratified", "all 512 x 289" if thorough else "8 x 289 + 512 x 8"))


# =========================================================================== C11
@plan("C11")
def c11(tier, seed):
    run = Run("C11", tier, seed)
    rng = random.Random(seed)
    run.model_check("MCTables", workers=4)          # Dequant / QuantUpdate / IntraDc lemmas on the spec
    # (i) the inverse_rle hook: exact coefficient values, exhaustive over quantizer x level, cycling positions
    hook = []
    pos = 0
    for q in range(1, 32):
        for lev in range(1, 1024):
            for sgn in (1, -1):
                pos = (pos + 7) % 63
                hook.append({"op": "rle", "q": q, "dc": -1, "ev": [[pos, sgn * lev]]})
    for p_ in range(0, 64):
        for (q, lev) in [(1, 1), (2, -1), (5, 12), (8, -127), (16, 64), (31, 33), (31, -1023), (30, 1023)]:
            hook.append({"op": "rle", "q": q, "dc": -1, "ev": [[p_, lev]]})
            if p_ < 63:
                hook.append({"op": "rle", "q": q, "dc": 77, "ev": [[p_, lev]]})
    for dc in range(0, 256):
        hook.append({"op": "rle", "q": rng.randrange(1, 32), "dc": dc, "ev": []})
        hook.append({"op": "rle", "q": rng.randrange(1, 32), "dc": dc, "ev": [[rng.randrange(0, 30), rng.choice([-3, 1, 40])]]})
    for i in range(3000 if tier == "quick" else 60000):          # multi-event blocks
        n = rng.randrange(2, 20)
        budget = 63
        evs = []
        for k in range(n):
            r_ = rng.randrange(0, max(1, min(8, budget - (n - k))))
            budget -= r_ + 1
            if budget < 0:
                break
            evs.append([r_, rng.choice([-1, 1]) * rng.choice([1, 2, 3, 17, 127, 600, 1023])])
        hook.append({"op": "rle", "q": rng.randrange(1, 32), "dc": rng.choice([-1, 5, 255]), "ev": evs})
    run.drive_and_validate(hook, "TraceRecon", sample=2)
    # (ii) the property's own route: 16x16 pictures carrying one coefficient per block over a DC, decoded and compared
    H = Hist()
    qs = [1, 2, 3, 8, 15, 16, 30, 31] if tier == "quick" else list(range(1, 32))
    items = []      # (ver, q, level, form)
    for q in qs:
        for lev in range(1, 128):
            for sgn in (1, -1):
                items.append((0, q, sgn * lev, 1))
        for lev in range(1, 64):
            for sgn in (1, -1):
                items.append((1, q, sgn * lev, 1))
        for lev in range(1, 1024):
            for sgn in (1, -1):
                items.append((1, q, sgn * lev, 2))
        for (last, run_, lev) in short_events():
            if last == 1:
                items.append((rng.randrange(2), q, lev, 0, run_))
                items.append((rng.randrange(2), q, -lev, 0, run_))
    groups = {}
    for it in items:
        groups.setdefault((it[0], it[1]), []).append(it)
    pos = 0
    for (ver, q), its in groups.items():
        for i in range(0, len(its), 6):
            six = (its[i:i + 6] + its[:6])[:6]
            blocks = []
            for it in six:
                pos = (pos + 5) % 62
                run_ = it[4] if len(it) > 4 else pos
                blocks.append({"dc": rng.choice([16, 128 + 1, 200, 64]), "ev": [[1, run_, it[2], it[3]]]})
            H.new()
            H.decode(one_mb_intra(rng, ver, q, 15, 3, blocks=blocks))
    # quantizer updates: all 31 x 4, observed through a coefficient in the second macroblock
    for q in range(1, 32):
        for dq in (-2, -1, 1, 2):
            ver = q % 2
            hdr = pg.header("sor", "I", tr=0, q=q, w=32, h=16, ver=ver)
            p = dict(hdr)
            mb1 = pg.coded_mb(rng, 4, ver == 1, cbpc=0, cbpy=0, dq=dq, big=False)
            mb2 = pg.coded_mb(rng, 3, ver == 1, cbpc=3, cbpy=15, big=False)
            for b in mb2["b"]:
                b["ev"] = [[1, rng.randrange(0, 10), rng.choice([-9, 7, 12]), 1]]
            p["mbs"] = [mb1, mb2]
            H.new()
            H.decode(p)
    # the clamped value is what is carried on: all 31 x 4 x 4 two-step update sequences (three macroblocks)
    for q in range(1, 32):
        for dq1 in (-2, -1, 1, 2):
            for dq2 in (-2, -1, 1, 2):
                if tier == "quick" and not (q <= 4 or q >= 28 or (q + dq1 + dq2) % 5 == 0):
                    continue
                ver = (q + dq1) % 2
                hdr = pg.header("sor", "I", tr=1, q=q, w=48, h=16, ver=ver)
                p = dict(hdr)
                mbs = [pg.coded_mb(rng, 4, ver == 1, cbpc=0, cbpy=0, dq=dq1, big=False), pg.coded_mb(rng, 4, ver == 1, cbpc=0, cbpy=8, dq=dq2, big=False),
                       pg.coded_mb(rng, 3, ver == 1, cbpc=3, cbpy=15, big=False)]
                for m in mbs[1:]:
                    for b in m["b"]:
                        if b["ev"]:
                            b["ev"] = [[1, rng.randrange(0, 10), rng.choice([-9, 7, 12]), 1]]
                p["mbs"] = mbs
                H.new()
                H.decode(p)
    # INTRADC: every valid code decodes to 8 x code (255 -> 1024); codes 0 and 128 must be rejected
    codes = [c for c in range(1, 256) if c != 128]
    for i in range(0, len(codes), 6):
        grp = (codes[i:i + 6] + codes[:6])[:6]
        H.new()
        H.decode(one_mb_intra(rng, i % 2, rng.randrange(1, 32), 0, 0, blocks=[{"dc": c, "ev": []} for c in grp]))
    for dc in (0, 128):
        for bi in range(6):
            blocks = [{"dc": 77, "ev": []} for _ in range(6)]
            blocks[bi]["dc"] = dc
            H.new()
            H.decode(one_mb_intra(rng, bi % 2, 5, 0, 0, blocks=blocks), opaque=True, expect="err", why="forbidden-intradc-%d" % dc)
    npics = sum(1 for c in H.cmds if c["op"] == "decode")
    enc = run.encode(H.cmds)
    run.drive_and_validate(enc, "TraceDecoder", group=hkey, sample=2)
    run.evaluations = len(hook) + npics
    run.nontrivial = len(hook) + npics
    run.exhaustive = tier == "thorough"
    run.notes["hook_events"] = len(hook)
    run.notes["pictures"] = npics
    run.notes["picture_route_quantizers"] = qs
    return run.finish(
        rule="hook route (exhaustive in both tiers): inverse_rle for all 31 quantizers x all levels +-1..1023 at cycling zig-zag "
             "positions, 64 positions x 8 representative (Q, L), all 256 INTRADC codes (0 and 128 must be refused), random multi-"
             "event blocks - exact coefficient values compared with Recon!Coefs; picture route: for quantizers %s every level in "
             "the 8-bit (+-1..127), 7-bit (+-1..63) and 11-bit (+-1..1023) escape forms and every LAST=1 Table-16 code, one per "
             "block over a DC, in 16x16 pictures encoded by TLC and compared sample by sample; all 31 x 4 quantizer updates; all "
             "INTRADC codes; pictures with INTRADC 0 / 128 must be rejected" % qs)


# =========================================================================== C12
@plan("C12")
def c12(tier, seed):
    run = Run("C12", tier, seed)
    rng = random.Random(seed)
    run.model_check("MCTables", workers=4)          # WrapMv / inversion formulation / ChromaMv / Median3 lemmas, exhaustive
    hook = [{"op": "mv", "pairs": [[p_, d] for p_ in range(-32, 32) for d in range(-32, 32)]},
            {"op": "chroma_mv", "sums": list(range(-128, 125))}]
    rv = lambda: [rng.randrange(-32, 32), rng.randrange(-32, 32)]
    for mbw in (1, 2, 3, 4):
        for mb in range(0, 3 * mbw):
            for blk in range(4):
                for rep in range(6 if tier == "quick" else 400):
                    mvs = []
                    for i in range(mb):
                        kind = rng.choice(["inter", "4v", "zero"])
                        if kind == "inter":
                            v = rv(); mvs.append([v, v, v, v])
                        elif kind == "4v":
                            mvs.append([rv(), rv(), rv(), rv()])
                        else:
                            mvs.append([[0, 0]] * 4)       # intra or not-coded neighbour
                    hook.append({"op": "cand", "mbw": mbw, "mvs": mvs, "cur": [rv(), rv(), rv(), rv()], "blk": blk})
    run.drive_and_validate(hook, "TraceRecon", sample=2)
    # picture route: every macroblock position of a grid reached by chains of uniformly drawn differentials
    H = Hist()
    for i in range(40 if tier == "quick" else 4000):
        w, h = rng.choice([(48, 48), (16, 64), (64, 16), (33, 33), (80, 32)])
        ver = i % 2
        H.new()
        H.decode(pg.intra_picture(rng, sor_hdr(rng, "I", 0, w, h, ver), big=False, shape="dense"))
        for k in range(2):
            p = pg.inter_picture(rng, sor_hdr(rng, "P", k + 1, w, h, ver), big=False, shape="sparse", mix=[2, 5, 1, 5, 2, 2, 2])
            for m in p["mbs"]:
                if m["k"] == "mb":
                    m["mvd"] = [[rng.randrange(-32, 32), rng.randrange(-32, 32)] for _ in m["mvd"]]
            H.decode(p)
    # every kind of neighbour that contributes a ZERO candidate (not coded, INTRA, INTRA+Q) placed between predicted macroblocks
    # with large vectors, in every column of a 3 x 2 grid: what such a macroblock leaves behind for its neighbours is zero,
    # whatever its own surroundings predict
    for i, zk in enumerate(["skip", 3, 4] * (2 if tier == "quick" else 40)):
        for col in range(3):
            ver = (i + col) % 2
            H.new()
            H.decode(pg.intra_picture(rng, sor_hdr(rng, "I", 0, 48, 32, ver), big=False, shape="dense"))
            p = dict(sor_hdr(rng, "P", 1, 48, 32, ver))
            mbs = []
            for j in range(6):
                if j == col:
                    mbs.append({"k": "skip"} if zk == "skip" else pg.coded_mb(rng, zk, ver == 1, big=False))
                else:
                    t = rng.choice([0, 0, 2, 1, 5])
                    nmv = 4 if t in (2, 5) else 1
                    mbs.append(pg.coded_mb(rng, t, ver == 1, mvd=[[rng.choice([-20, -9, 7, 13, 21]), rng.choice([-17, -6, 5, 11, 19])] for _ in range(nmv)], big=False))
            p["mbs"] = mbs
            H.decode(p)
    npics = sum(1 for c in H.cmds if c["op"] == "decode")
    enc = run.encode(H.cmds)
    run.drive_and_validate(enc, "TraceDecoder", group=hkey, sample=1)
    run.evaluations = 4096 + 253 + len(hook) - 2 + npics
    run.nontrivial = run.evaluations
    run.exhaustive = True
    run.notes["candidate_configurations"] = len(hook) - 2
    run.notes["pictures"] = npics
    return run.finish(
        rule="exhaustive: all 64 x 64 (predictor, differential) pairs through mv_decode (both components), all 253 four-vector sums "
             "-128..124 through the chroma rounding; predict_candidate for every macroblock position of grids 1..4 wide x 3 rows x "
             "block 0..3 with neighbours drawn from {one-vector, four-vector, zero (intra / not coded)}; and P pictures on 3x3, 1x4, "
             "4x1, 5x2 grids whose differentials are uniform over -16..15.5 and with every zero-candidate kind (not coded, INTRA, "
             "INTRA+Q) in every column between predicted macroblocks, validated in pixel mode; the spec-side lemmas (wrap "
             "lands in range and is congruent; inversion formulation = modular formulation; chroma rounding odd-symmetric) are "
             "checked exhaustively by TLC in MCTables")


# =========================================================================== C10
@plan("C10")
def c10(tier, seed):
    run = Run("C10", tier, seed)
    rng = random.Random(seed)
    run.model_check("MCTables", workers=4)       # cosine table, basis orthogonality
    cmds = []
    seeds = [1] if tier == "quick" else [1, 7, 1234567, 99991, 2, 3, 5, 11, 13, 424242, 31337, 65537]
    chunk = 125
    for sd in seeds:
        for (L, Hh) in [(256, 255), (5, 5), (300, 300)]:
            for sign in (1, -1):
                name = "annexA seed=%d range=-%d..%d sign=%s" % (sd, L, Hh, "+" if sign > 0 else "-")
                for start in range(0, 10000, chunk):
                    cmds.append({"op": "annexa", "L": L, "H": Hh, "sign": sign, "start": start, "n": chunk, "seed": sd, "set": name})
    n_annex = len(seeds) * 6 * 10000
    # all-zero block (both as marker and as a full block of zeros), DC-only blocks, first-row / first-column blocks
    cmds.append({"op": "idct", "set": "zero", "blocks": [{"k": "zero", "c": [0] * 64}, {"k": "full", "c": [0] * 64},
                                                        {"k": "dc", "c": [0] * 64}, {"k": "horiz", "c": [0] * 64}, {"k": "vert", "c": [0] * 64}]})
    dcs = list(range(-2048, 2048)) if tier == "thorough" else sorted(set(list(range(-2048, 2048, 17)) + [-2048, -1, 1, 2047, 8, 1024, 2040, -8]))
    for i in range(0, len(dcs), 128):
        cmds.append({"op": "idct", "set": "dc-only", "blocks": [{"k": "dc", "c": [v] + [0] * 63} for v in dcs[i:i + 128] if v != 0]})
    nshape = 2000 if tier == "quick" else 300000
    for kind in ("horiz", "vert"):
        for i in range(0, nshape, 100):
            blocks = []
            for _ in range(100):
                c = [0] * 64
                amp = rng.choice([8, 64, 512, 2047])
                for k in range(8):
                    if rng.random() < 0.7:
                        c[k if kind == "horiz" else 8 * k] = rng.randrange(-amp - 1, amp + 1)
                if kind == "horiz" and not any(c[1:8]):
                    c[rng.randrange(1, 8)] = 1
                if kind == "vert" and not any(c[8 * k] for k in range(1, 8)):
                    c[8 * rng.randrange(1, 8)] = -1
                blocks.append({"k": kind, "c": c})
            cmds.append({"op": "idct", "set": "first-%s-only" % ("row" if kind == "horiz" else "column"), "blocks": blocks})
    # every support pattern of the first row / first column (255 each) and, for dense blocks, every row pattern placed in a
    # single row, in every row, or transposed into a column: shortcuts keyed on "which coefficients are zero" are all reached
    amps = lambda: rng.choice([1, 7, 100, 2047]) * rng.choice([1, -1])
    pat_blocks = {"horiz": [], "vert": [], "full": []}
    for pat in range(1, 256):
        idx = [k for k in range(8) if (pat >> k) & 1]
        for rep in range(2 if tier == "quick" else 40):
            c = [0] * 64
            for k in idx:
                c[k] = amps()
            if any(c[1:8]):
                pat_blocks["horiz"].append({"k": "horiz", "c": list(c)})
            cv = [0] * 64
            for k in idx:
                cv[8 * k] = amps()
            if any(cv[8 * k] for k in range(1, 8)):
                pat_blocks["vert"].append({"k": "vert", "c": cv})
            for rows in ([rng.randrange(1, 8)], [0, rng.randrange(1, 8)], list(range(8))):
                cf = [0] * 64
                for r_ in rows:
                    for k in idx:
                        cf[8 * r_ + k] = amps()
                if any(cf[8:]) and any(cf[i] for i in range(64) if i % 8):
                    pat_blocks["full"].append({"k": "full", "c": cf})
                ct = [0] * 64
                for r_ in rows:
                    for k in idx:
                        ct[8 * k + r_] = amps()
                if any(ct[8:]) and any(ct[i] for i in range(64) if i % 8):
                    pat_blocks["full"].append({"k": "full", "c": ct})
    for pos in range(64):          # a single coefficient at every position, alone and over a DC
        for v in (1, -3, 2047, -2048):
            c = [0] * 64
            c[pos] = v
            k = "zero" if not any(c) else ("dc" if pos == 0 else "horiz" if pos < 8 else "vert" if pos % 8 == 0 else "full")
            pat_blocks.setdefault(k, []).append({"k": k, "c": c})
            if pos and pos >= 8 and pos % 8:
                c2 = list(c); c2[0] = 1024
                pat_blocks["full"].append({"k": "full", "c": c2})
    for kind, bl in pat_blocks.items():
        for i in range(0, len(bl), 100):
            cmds.append({"op": "idct", "set": "support-patterns-%s" % kind, "blocks": bl[i:i + 100]})
    # blocks of every kind MIXED in one idct_channel call (in a plane the transform runs block after block: whatever it keeps
    # between blocks - scratch rows, skipped passes - must not leak from one block into the next).  Each block's result is
    # judged alone, exactly as above; only the way the blocks are handed to the transform differs.
    pool = {k: [b for b in v] for k, v in pat_blocks.items() if v}
    pool.setdefault("zero", []).append({"k": "zero", "c": [0] * 64})
    pool.setdefault("full", []).append({"k": "full", "c": [0] * 64})          # the all-zero block handed over as a general block
    for nrows in range(1, 8):                                                   # general blocks whose last rows are empty
        for _ in range(6):
            c = [0] * 64
            for r_ in range(nrows):
                for u in range(8):
                    if rng.random() < 0.6:
                        c[8 * r_ + u] = rng.randrange(-300, 301)
            c[8 * (nrows - 1) + rng.randrange(1, 8)] = rng.choice([-7, 9, 120])
            if nrows > 1:
                c[8] = c[8] or 5
            pool["full"].append({"k": "full", "c": c})
            ct = [c[8 * (i % 8) + i // 8] for i in range(64)]                   # and whose last columns are empty
            if any(ct[i] for i in range(64) if i >= 8) and any(ct[i] for i in range(64) if i % 8):
                pool["full"].append({"k": "full", "c": ct})
    # blocks written into a plane smaller than 8 x 8 (right / bottom edge of a picture whose size is no multiple of 8):
    # every crop 1..8 x 1..8, blocks of every kind
    for cw in range(1, 9):
        for ch in range(1, 9):
            if (cw, ch) == (8, 8):
                continue
            blocks = [rng.choice(pool[k]) for k in sorted(pool) for _ in range(2 if tier == "quick" else 12)]
            cmds.append({"op": "idct", "set": "cropped-plane", "cw": cw, "ch": ch, "blocks": blocks})
    # the all-zero block handed over as a general block right after blocks of every other kind, in one call
    zf = {"k": "full", "c": [0] * 64}
    for rep in range(6 if tier == "quick" else 100):
        blocks = []
        for k in ("full", "horiz", "vert", "dc", "full", "zero", "full"):
            if pool.get(k):
                blocks += [rng.choice(pool[k]), zf]
        cmds.append({"op": "idct", "set": "mixed-batch", "batch": True, "per_line": rng.choice([1, 2, len(blocks)]), "blocks": blocks})
    kinds_ = sorted(pool)
    nbatch = 60 if tier == "quick" else 3000
    for i in range(nbatch):
        n = rng.randrange(2, 25)
        favour = rng.sample(kinds_, k=min(len(kinds_), rng.randrange(2, 4)))
        blocks = [rng.choice(pool[rng.choice(favour) if rng.random() < 0.7 else rng.choice(kinds_)]) for _ in range(n)]
        cmds.append({"op": "idct", "set": "mixed-batch", "batch": True, "per_line": rng.choice([1, 2, 3, n, n]), "blocks": blocks})
    rng.shuffle(cmds)
    run.drive_and_validate(cmds, "TraceRecon", sample=1)
    # add the per-shard sums (plain addition) and let TLC take the Annex A verdict
    tot = {}
    for a in run.acc:
        for name, v in (a or {}).items():
            t = tot.setdefault(name, {"n": 0, "peak": 0, "se": [0] * 64, "se2": [0] * 64, "amb": 0})
            t["n"] += v["n"]
            t["peak"] = max(t["peak"], v["peak"])
            t["se"] = [x + y for x, y in zip(t["se"], v["se"])]
            t["se2"] = [x + y for x, y in zip(t["se2"], v["se2"])]
            t["amb"] += v.get("amb", 0)
    annex = {k: v for k, v in tot.items() if k.startswith("annexA")}
    for k, v in annex.items():
        if v["n"] != 10000:
            run.tool_errors.append("Annex A set %s has %d blocks, expected 10000" % (k, v["n"]))
    if annex:
        sp = os.path.join(run.work, "stats.json")
        cap = lambda x: max(-30000000, min(30000000, x))         # keep sums inside TLC's integers when errors are enormous
        json.dump({k: {"n": v["n"], "peak": v["peak"], "se": [cap(x) for x in v["se"]], "se2": [cap(x) for x in v["se2"]]}
                   for k, v in annex.items()}, open(sp, "w"))
        r = core.run_tlc("AnnexAVerdict", env={"STATS": sp}, workdir=run.work)
        run.states += r.distinct
        run.transitions += r.generated
        if r.error:
            run.tool_errors.append("AnnexAVerdict: %s\n%s" % (r.error, r.raw_tail))
        for d in r.diags:
            run.impl_diags.append((d, [{"op": "annexa-statistics", "stats": annex.get(d["detail"].get("set"))}]))
        run.notes["annex_a_verdicts"] = [json.loads(x[8:]) for x in r.prints if x.startswith("VERDICT ")]
    run.notes["samples_on_a_rounding_boundary_of_the_reference"] = sum(v["amb"] for v in tot.values())
    run.notes["blocks"] = {k: v["n"] for k, v in tot.items()}
    run.evaluations = sum(v["n"] for v in tot.values())
    run.nontrivial = run.evaluations
    run.exhaustive = tier == "thorough"
    run.assumptions = ["the double-precision reference IDCT of Annex A is replaced by the two-limb fixed-point ideal transform of "
                       "Recon.tla (error < 2^-10); where the ideal value is within that error of a rounding boundary the check is "
                       "lenient (the nearer neighbour is taken as the reference), never strict",
                       "the forward DCT that produces the Annex A test blocks runs in the driver in double precision: it only "
                       "produces inputs"]
    return run.finish(
        rule="the complete Annex A procedure: %d pseudo-random blocks (generator seed(s) %s; ranges -256..255, -5..5, -300..300 and "
             "their negations, 10000 blocks each) through the real idct_channel; TLC computes the ideal transform of every block, "
             "requires every sample inside the eps(F) band and within 1 of the rounded ideal value, accumulates error and squared-"
             "error sums per position, and evaluates the five Annex A thresholds per data set in TLA+ (AnnexAVerdict); plus the "
             "all-zero block, %d DC-only blocks and 2 x %d first-row / first-column blocks over -2048..2047 through the sparse "
             "shortcuts, every support pattern, blocks of all kinds mixed in one idct_channel call, and every crop 1..8 x 1..8 of the "
             "output plane" % (n_annex, seeds, len(dcs), nshape))


# =========================================================================== C17
def split_threads(evs):
    """events of a "threads" command -> one trace per instance (each starts with "new"), then the digests of replicas"""
    out = []
    across = {}
    for e in evs:
        if e.get("op") != "threads":
            out.append(e)
            continue
        if "evs" not in e:      # the command did not run (harness failure): TLC reports it
            out.append(e)
            continue
        for inst in e["evs"]:
            for x in inst:
                x["ci"] = e.get("ci")
                out.append(x)
        def per_tag(evs_):          # the digest of the last observation of every picture (a retried delivery ends like a single one)
            last = {}
            for x in evs_:
                if x.get("op") in ("decode", "cleanup") and x.get("tag", -1) >= 0:
                    last[x["tag"]] = x["digest"]
            return [last[k] for k in sorted(last)]
        def comparable(evs_):       # a first part that ends at a macroblock boundary is accepted as an early-ended picture (by
            #                         design): such a delivery is not "the same bytes in two parts followed by a retry"
            return not any(x.get("why") == "split-first-part" and x.get("rc") == "ok" for x in evs_)
        groups = [[per_tag(e["evs"][i]) for i in g if comparable(e["evs"][i])] for g in e["groups"]]
        groups = [g for g in groups if len(g) >= 2]
        out.append({"op": "replicas", "groups": groups, "mode": e.get("mode", ""), "ci": e.get("ci"), "ret": e["ret"]})
        if "xkey" in e:         # the same history run in different processes / after different predecessors
            xe = e["evs"][e["xinst"]]
            allok = all(x.get("rc") == "ok" for x in xe if x.get("op") == "decode")
            across.setdefault(e["xkey"], []).append((per_tag(xe), e.get("ci"), e.get("mode"), allok))
    for k, lst in across.items():
        # delivery through ONE reader is comparable with one reader per picture only if every call succeeded (after a
        # rejected call a stream reader stays at the rejected data, by design)
        if not all(a for _, _, _, a in lst):
            lst = [x for x in lst if x[2] != "alone-one-reader"]
        if len(lst) >= 2:
            out.append({"op": "replicas", "groups": [[d for d, _, _, _ in lst]], "mode": "across-processes", "ci": lst[-1][1], "ret": "ok"})
    return out


@plan("C17")
def c17(tier, seed):
    run = Run("C17", tier, seed)
    rng = random.Random(seed)
    # (a) the model: Independence and Determinism over all interleavings of 3 instances x 3 calls
    r = run_gen_bfs(run, "MCInstances", "MCInstances")
    orders = [[i - 1 for i in g["order"]] for g in r]
    # programs of the three instances (instances 0 and 1 are replicas): I P D / I P D / I R P
    def programs():
        w, h, ver = rng.choice([(16, 16), (32, 16), (17, 9)]), None, rng.randrange(2)
        w, h = w
        ipic = pg.intra_picture(rng, sor_hdr(rng, "I", 0, w, h, ver), big=False)
        ppic = pg.inter_picture(rng, sor_hdr(rng, "P", 1, w, h, ver), big=False)
        dpic = pg.inter_picture(rng, sor_hdr(rng, "D", 2, w, h, ver), pt="D", big=False)
        p2 = pg.inter_picture(rng, sor_hdr(rng, "P", 7, w, h, ver), big=False)
        a = [("I", ipic), ("P", ppic), ("D", dpic)]
        # the rejected input of the third instance fails deep inside the picture (block layer), after valid macroblocks
        bad = pg.intra_picture(rng, sor_hdr(rng, "I", 9, w, h, ver), big=False, shape="dense")
        bad["mbs"][-1]["b"][rng.randrange(6)]["dc"] = 0
        c = [("I", pg.intra_picture(rng, sor_hdr(rng, "I", 5, w, h, ver), big=False)), ("R", bad), ("P", p2)]
        return [a, a, c]
    # encode a pool of program sets
    pools = [programs() for _ in range(6 if tier == "quick" else 40)]
    flat = []
    for pi, progs in enumerate(pools):
        for ii, prog in enumerate(progs):
            for k, (t, pic) in enumerate(prog):
                if pic is not None:
                    c_ = {"op": "decode", "d": 0, "pic": pic, "pool": pi, "inst": ii, "k": k}
                    if t == "R":
                        c_["opaque"] = True
                        c_["why"] = "fails-in-block-layer"
                    flat.append(c_)
    enc = run.encode(flat)
    byk = {(c["pool"], c["inst"], c["k"]): c for c in enc}

    def inst_cmds(pi, ii, maxread=0, split=False, stream=False):
        # replicas may get the same bytes handed out in different piece sizes, or in two deliveries with a failed attempt in
        # between (split): the result must not depend on it.  "tag" = index of the picture the command belongs to.
        out = [{"op": "new", "d": 0, "sor": True, "maxread": maxread, "tag": -1}]
        for k, (t, pic) in enumerate(pools[pi][ii]):
            if not stream or k == 0:        # stream: all pictures through one reader (only for programs of valid pictures)
                out.append({"op": "newreader", "d": 0, "tag": k})
            if pic is None:
                out.append({"op": "decode", "d": 0, "bytes": GARBAGE[0], "why": "garbage", "tag": k})
                continue
            c = byk[(pi, ii, k)]
            d_ = {"op": "decode", "d": 0, "pic": c["pic"], "bytes": c["bytes"], "tag": k}
            if "opaque" in c:
                d_["opaque"] = True
                d_["why"] = c["why"]
            if split and "opaque" not in c and len(c["bytes"]) > 4:
                cut = rng.randrange(1, len(c["bytes"]))
                out.append({"op": "append", "d": 0, "bytes": c["bytes"][:cut], "tag": k})
                out.append({"op": "decode", "d": 0, "bytes": [], "pre": True, "why": "split-first-part", "tag": k})
                out.append({"op": "append", "d": 0, "bytes": c["bytes"][cut:], "tag": k})
                d_["pre"] = True
            out.append(d_)
        return out
    cmds = []
    # (b) every interleaving TLC produced, forced by a turnstile.  A call = newreader + decode (2 driver ops) after "new"
    if tier == "quick":
        rng.shuffle(orders)
        sel = orders[:420]
    else:
        sel = orders
    for oi, order in enumerate(sel):
        pi = oi % len(pools)
        # expand the model's call order into driver-op order: "new" of each instance first, then 2 ops per call
        dorder = [0, 1, 2] + [i for i in order for _ in range(2)]
        cmds.append({"op": "threads", "insts": [inst_cmds(pi, 0), inst_cmds(pi, 1, maxread=rng.choice([0, 1, 2, 3])), inst_cmds(pi, 2)], "order": dorder,
                     "groups": [[0, 1]], "mode": "turnstile", "h": len(cmds)})
    # (b') the same interleavings with all instances on ONE thread (per-thread state would be shared between instances)
    for oi, order in enumerate(sel[:(200 if tier == "quick" else len(sel))]):
        pi = (oi + 1) % len(pools)
        dorder = [0, 1, 2] + [i for i in order for _ in range(2)]
        cmds.append({"op": "threads", "insts": [inst_cmds(pi, 0), inst_cmds(pi, 1), inst_cmds(pi, 2)], "order": dorder, "single": True,
                     "groups": [[0, 1]], "mode": "single-thread", "h": len(cmds)})
    # (c) free-running threads: 16 instances, replicas of 4 histories, repeated
    for rep in range(12 if tier == "quick" else 1000):
        pi = rep % len(pools)
        insts = [inst_cmds(pi, (k % 4) if (k % 4) < 3 else 0, maxread=(k // 4) % 4, split=(k % 8 == 3), stream=(k % 8 == 5)) for k in range(16)]
        groups = [[k for k in range(16) if (k % 4 if k % 4 < 3 else 0) == gsel] for gsel in range(3)]
        groups = [[k for k in range(16) if (k % 4) in (0, 1, 3)], [k for k in range(16) if k % 4 == 2]]
        cmds.append({"op": "threads", "insts": insts, "groups": groups, "mode": "free-running", "h": len(cmds)})
    # (d) what one decoder produces must not depend on what OTHER decoders of the same process were fed before it, in any mode
    #     (state kept per process or per thread and keyed too coarsely - a memo, a scratch buffer - would make it so): every
    #     stream X is decoded (1) alone in a fresh process and (2) in a fresh process after a different stream Y, on one thread
    #     and on two; the digests of X must agree.  Streams: Sorenson v0 / v1, standard mode with custom formats of different
    #     Annex D size classes with and without unrestricted motion vectors (long vectors), and baseline headers.
    def stream(kind):
        pics = []
        if kind[0] == "sor":
            _, w, h, ver = kind
            pics = [pg.intra_picture(rng, sor_hdr(rng, "I", 0, w, h, ver), big=False)]
            for k in range(1, 12):      # long enough for the reader's buffer to be drained and refilled many times
                t = rng.choice(["P", "P", "D"])
                pics.append(pg.inter_picture(rng, sor_hdr(rng, t, k, w, h, ver), pt=t, big=False))
        elif kind[0] == "base":
            pics = [pg.intra_picture(rng, pg.header("base", "I", tr=0, q=rng.randrange(1, 32), fmt=1), big=False, shape="one"),
                    pg.inter_picture(rng, pg.header("base", "P", tr=1, q=rng.randrange(1, 32), fmt=1), big=False, shape="one")]
        else:
            _, w, h, uui = kind
            pics = [pg.intra_picture(rng, pg.header("plus", "I", tr=0, q=rng.randrange(1, 32), w=w, h=h), big=False, shape="one")]
            for k in range(2):
                hdr = pg.header("plus", "P", tr=k + 1, q=rng.randrange(1, 32), w=w, h=h)
                p = pg.inter_picture(rng, hdr, big=False, shape="one", mix=[1, 5, 1, 3, 0, 0, 1])
                if uui:
                    p["umv"], p["uui"] = 1, uui
                    for m in p["mbs"]:
                        if m["k"] == "mb":
                            m["mvd"] = [[rng.choice([0, 3, -35, 35, 70, -70, 100, -130, 200, -260]), rng.choice([0, -3, 35, -70, 70, 130, -200])]
                                        for _ in m["mvd"]]
                pics.append(p)
        return pics
    kinds_ = [("sor", 16, 16, 0), ("sor", 33, 17, 1), ("sor", 48, 32, 1), ("base",), ("plus", 16, 16, 0), ("plus", 48, 32, 0),
              ("plus", 16, 16, 1), ("plus", 16, 304, 1), ("plus", 368, 16, 1), ("plus", 16, 16, 2), ("plus", 16, 304, 2), ("plus", 32, 592, 1)]
    sflat = []
    for si, kind in enumerate(kinds_):
        for k, pic in enumerate(stream(kind)):
            sflat.append({"op": "x", "pic": pic, "opaque": True, "si": si, "k": k})
    senc = run.encode(sflat)

    def stream_cmds(si, one_reader=False):
        out = [{"op": "new", "d": 0, "sor": kinds_[si][0] == "sor", "tag": -1, "noprobe": True}]
        for c in senc:
            if c["si"] == si:
                if not one_reader or c["k"] == 0:
                    out.append({"op": "newreader", "d": 0, "tag": c["k"]})
                out.append({"op": "decode", "d": 0, "bytes": c["bytes"], "opaque": True, "planes": True, "why": "stream-" + kinds_[si][0], "tag": c["k"]})
        return out
    pairs = [(x, y) for x in range(len(kinds_)) for y in range(len(kinds_)) if x != y]
    rng.shuffle(pairs)
    umvs = [i for i, k in enumerate(kinds_) if k[0] == "plus" and k[3]]
    must = [(x, y) for x in umvs for y in umvs if x != y]
    sel_pairs = must + [pr for pr in pairs if pr not in must][:(20 if tier == "quick" else len(pairs))]
    for xi, (x, y) in enumerate(sel_pairs):
        cx, cy = stream_cmds(x), stream_cmds(y)
        key = "x%d" % xi
        cmds.append({"op": "threads", "insts": [cx], "order": [0] * len(cx), "single": True, "fresh": True, "groups": [],
                     "mode": "alone", "xkey": key, "xinst": 0, "h": len(cmds)})
        cmds.append({"op": "threads", "insts": [cy, cx], "order": [0] * len(cy) + [1] * len(cx), "single": True, "fresh": True, "groups": [],
                     "mode": "after-another-stream", "xkey": key, "xinst": 1, "h": len(cmds)})
        cmds.append({"op": "threads", "insts": [cy, cx], "order": [0] * len(cy) + [1] * len(cx), "fresh": True, "groups": [],
                     "mode": "after-another-stream-two-threads", "xkey": key, "xinst": 1, "h": len(cmds)})
        # ... and X alone again with all its pictures through ONE reader instead of one reader per picture
        c1 = stream_cmds(x, one_reader=True)
        cmds.append({"op": "threads", "insts": [c1], "order": [0] * len(c1), "single": True, "fresh": True, "groups": [],
                     "mode": "alone-one-reader", "xkey": key, "xinst": 0, "h": len(cmds)})
    # (e) many instances alive at once, each holding a very large picture (more than 2^28 samples in the process altogether):
    #     whatever is counted, pooled or capped per process must not make the twelfth instance fare differently from the first
    hdrL = pg.header("sor", "I", tr=1, q=rng.randrange(1, 32), w=4097, h=4097, ver=0, sc=1)
    pL = dict(hdrL)
    mbL = pg.coded_mb(rng, 3, False, cbpc=0, cbpy=0, big=False)
    mbL["b"] = [{"dc": rng.randrange(1, 128), "ev": []} for _ in range(6)]
    pL["mbs"] = [mbL]
    pL["rep"] = pg.nmb(pL)
    encL = run.encode([{"op": "x", "pic": pL, "opaque": True}])[0]
    ninst = 12
    instL = [[{"op": "new", "d": 0, "sor": True, "tag": -1}, {"op": "newreader", "d": 0, "tag": 0},
              {"op": "decode", "d": 0, "bytes": encL["bytes"], "opaque": True, "planes": False, "why": "very-large-picture", "tag": 0}]
             for _ in range(ninst)]
    cmds.append({"op": "threads", "insts": instL, "order": [i for _ in range(3) for i in range(ninst)], "single": True, "fresh": True,
                 "groups": [list(range(ninst))], "mode": "many-large-instances", "h": len(cmds)})
    run.notes["cross_process_pairs"] = len(sel_pairs)
    # fresh processes between repetitions: one driver process per shard, many shards
    run.drive_and_validate(cmds, "TraceDecoder", nshards=32 if tier == "quick" else 64, post_fn=split_threads, sample=1,
                           group=lambda c: c.get("xkey", c["h"]))
    run.evaluations = len(cmds)
    run.nontrivial = len(sel) + 1
    run.notes["interleavings_forced"] = len(sel)
    run.notes["interleavings_in_model"] = len(orders)
    run.assumptions = ["TLA+ models call-level interleavings; instruction-level data races are excluded by construction: the three "
                       "crates contain no unsafe code and no static mut, and decoder objects are not shared between threads"]
    return run.finish(
        rule="model: all interleavings of 3 instances x 3 calls (MCInstances: Independence, Determinism, ReplicasAgree); "
             "implementation: %d of the %d call orders TLC exported are forced on real threads by a turnstile (all of them in "
             "thorough), plus free-running runs of 16 threads (replicas of the same histories, valid and invalid inputs) in "
             "separate driver processes; every instance's trace is validated on its own in pixel mode against the decoder model "
             "and replicas must have identical digests of every observation; a pool of 12 streams (Sorenson, baseline, custom "
             "formats of different Annex D size classes, with UMV) each decoded alone in a fresh process, after another stream, and "
             "through one reader: digests must agree; twelve instances holding a 4097x4097 picture each" % (len(sel), len(orders)))


# =========================================================================== C13
@plan("C13")
def c13(tier, seed):
    run = Run("C13", tier, seed)
    rng = random.Random(seed)
    run.model_check("MCPipeline", workers=8)
    H = Hist()
    wmax, hmax = (40, 40) if tier == "quick" else (100, 100)
    sizes = [(w, h) for w in range(1, wmax + 1) for h in range(1, hmax + 1)]
    if tier == "quick":      # every width and every height, all small sizes, and a pseudo-random half of the rest
        sizes = [(w, h) for (w, h) in sizes if w <= 12 or h <= 12 or (w * 7 + h * 13 + seed) % 4 == 0]
    else:
        sizes = [(w, h) for (w, h) in sizes if w <= 24 or h <= 24 or (w * 7 + h * 13 + seed) % 2 == 0]
    q = 0
    for (w, h) in sizes:
        q = q % 31 + 1
        H.new()
        hdr = pg.header("sor", "I", tr=q, q=q, w=w, h=h, ver=(w + h) % 2)
        pic = pg.intra_picture(rng, hdr, big=False, shape="sparse", dquant=False)
        H.decode(pic)
        if w * h <= 24 * 24:
            H.op("post", full=True)
        else:
            H.op("post")
        # a predicted picture on top (other quantizer), then post-process again
        if (w + h) % 3 == 0:
            q2 = (q + 11) % 31 + 1
            H.decode(pg.inter_picture(rng, pg.header("sor", "P", tr=0, q=q2, w=w, h=h, ver=(w + h) % 2), big=False, shape="sparse",
                                      mix=[2, 5, 0, 2, 1, 0, 0]))
            H.op("post", **({"full": True} if w * h <= 24 * 24 else {}))
    # standard sizes of the Sorenson header
    for sc in ([4] if tier == "quick" else [2, 3, 4, 5, 6]):
        H.new()
        H.decode(pg.intra_picture(rng, sor_hdr(rng, "I", 2, 0, 0, 1, sc=sc), big=False, shape="one"))
        H.op("post")
    # runs of pictures on ONE decoder whose sizes change while the number of samples stays the same (6x4, 3x8, 8x3, ... and
    # 4x8, 8x4, 16x2, ...): whatever the decoder keeps from earlier pictures, every picture must have ITS OWN shape
    fams = [[(6, 4), (3, 8), (8, 3), (4, 6), (24, 1), (2, 12), (12, 2), (1, 24)], [(4, 8), (8, 4), (16, 2), (2, 16), (32, 1), (1, 32)],
            [(16, 16), (32, 8), (8, 32), (64, 4)], [(5, 3), (3, 5), (15, 1), (1, 15)]]
    for rep in range(12 if tier == "quick" else 200):
        fam = rng.choice(fams)
        H.new()
        ver = rng.randrange(2)
        for k in range(rng.randrange(4, 8)):
            w, h = rng.choice(fam)
            q = q % 31 + 1
            H.op("newreader")
            H.decode(pg.intra_picture(rng, pg.header("sor", "I", tr=(7 * k + rep) % 256, q=q, w=w, h=h, ver=ver), big=False, shape="sparse", dquant=False))
            H.op("post", full=True)
            if rng.random() < 0.3:
                H.op("cleanup")
    # pictures with more samples than a single-precision float can count (above 2^24; only the 16-bit size code reaches
    # them): one DC-only macroblock repeated (Picture!RepeatBits); judged by their lengths only
    for (w, h) in ([(4097, 4097)] if tier == "quick" else [(4097, 4097), (8193, 2049), (1025, 16385), (5793, 5793)]):
        hdr = pg.header("sor", "I", tr=9, q=rng.randrange(1, 32), w=w, h=h, ver=rng.randrange(2), sc=1)
        p_ = dict(hdr)
        mb = pg.coded_mb(rng, 3, False, cbpc=0, cbpy=0, big=False)
        mb["b"] = [{"dc": rng.randrange(1, 128), "ev": []} for _ in range(6)]
        p_["mbs"] = [mb]
        p_["rep"] = pg.nmb(p_)
        H.new()
        H.decode(p_, opaque=True, expect="ok", planes=False, why="more-than-2^24-samples")
        H.op("post", lens=True)
    # flat pictures at the extremes a decoder can produce (INTRADC 1 and 254 in every plane, all eight combinations), in sizes
    # whose rows end in 1, 2 or 3 left-over pixels and whose last block row is cut: the post-processing must cope with
    # colours far outside the video range wherever they stand
    for (w, h) in [(5, 3), (7, 2), (9, 9), (13, 6), (15, 16), (6, 5), (1, 1), (2, 2), (3, 3), (16, 16)]:
        for combo in range(8):
            yv, bv, rv = [(1, 254)[(combo >> k) & 1] for k in range(3)]
            q = q % 31 + 1
            blocks = [{"dc": yv, "ev": []} for _ in range(4)] + [{"dc": bv, "ev": []}, {"dc": rv, "ev": []}]
            H.new()
            H.decode(one_mb_intra(rng, (w + combo) % 2, q, 0, 0, blocks=blocks, w=w, h=h, tr=combo))
            H.op("post", full=True)
    npics = sum(1 for c in H.cmds if c["op"] == "post")
    enc = run.encode(H.cmds)
    run.drive_and_validate(enc, "TraceDecoder", group=hkey, sample=2, also=["TracePost"])
    run.evaluations = npics
    run.nontrivial = len(sizes)
    run.notes["post_processed_pictures"] = npics
    run.assumptions = ["debug assertions are enabled in the harness build, so the documented preconditions of deblock() and yuv420_to_rgba() are checked at run time"]
    return run.finish(
        rule="picture sizes: every (w,h) with w<=12 or h<=12 and a quarter of the remaining sizes up to %dx%d (so every width and "
             "every height occurs; 1-row, 1-column, odd and <10-wide sizes all included), quantizer cycling through 1..31, intra "
             "pictures and predicted pictures on top; each decoded picture is validated in pixel mode (TraceDecoder) and then "
             "deblocked per plane with the tabulated strength and converted; TLC checks plane shapes, strength, output length, "
             "absence of panics, and for sizes <= 24x24 every RGBA pixel = Yuv o Deblock of the decoded planes; runs of pictures of "
             "equal area and changing shape on one decoder; flat pictures at INTRADC 1 / 254; pictures of more than 2^24 samples "
             "(lengths only)" % (wmax, hmax))


# =========================================================================== C01
def mutate(rng, b):
    """corruptions of a valid encoded picture"""
    b = list(b)
    r = rng.random()
    if r < 0.35 and b:
        for _ in range(rng.randrange(1, 4)):
            i = rng.randrange(len(b))
            b[i] ^= 1 << rng.randrange(8)
        return b, "bitflip"
    if r < 0.55 and len(b) > 1:
        return b[:rng.randrange(1, len(b))], "truncate"
    if r < 0.7 and len(b) > 4:
        i = rng.randrange(3, len(b))
        n = rng.randrange(1, 6)
        return b[:i] + rbytes(rng, n) + b[i + rng.randrange(0, n + 1):], "splice"
    if r < 0.85:
        return b + rbytes(rng, rng.randrange(1, 40)), "append-garbage"
    i = rng.randrange(len(b)) if b else 0
    return b[:i] + [0] * rng.randrange(1, 6) + b[i:], "insert-zeros"


@plan("C01")
def c01(tier, seed):
    run = Run("C01", tier, seed)
    rng = random.Random(seed)
    run.model_check("MCDecoder", "MCDecoder", workers=8, xmx="4g")
    run.model_check("MbLoop", "MbLoop", workers=4)      # the macroblock loop terminates: measure decreases, <>returns
    rounds = 1 if tier == "quick" else 100
    ncalls = [0]
    nhist = 0
    distinct = set()
    for rnd in range(rounds):
        # ---- base material: valid pictures as abstract values, encoded by TLC
        base = []

        def add(tag, pic, **kw):
            c = {"op": "x", "pic": pic, "tag": tag, "opaque": True}
            c.update(kw)
            base.append(c)

        dims = [(1, 1), (15, 16), (16, 16), (17, 16), (32, 16), (32, 32), (33, 17), (48, 32), (16, 48)]
        for (w, h) in dims:
            for ver in (0, 1):
                add("I", pg.intra_picture(rng, sor_hdr(rng, "I", 0, w, h, ver), stuffing=0.05), w=w, h=h, ver=ver, sor=True)
                add("P", pg.inter_picture(rng, sor_hdr(rng, "P", 1, w, h, ver), stuffing=0.05), w=w, h=h, ver=ver, sor=True)
                add("D", pg.inter_picture(rng, sor_hdr(rng, "D", 2, w, h, ver), pt="D"), w=w, h=h, ver=ver, sor=True)
        for (w, h) in [(16, 16), (36, 20)]:
            add("I", pg.intra_picture(rng, pg.header("plus", "I", tr=0, q=rng.randrange(1, 32), w=w, h=h), big=False), w=w, h=h, ver=0, sor=False)
            add("P", pg.inter_picture(rng, pg.header("plus", "P", tr=1, q=rng.randrange(1, 32), w=w, h=h), big=False), w=w, h=h, ver=0, sor=False)
        # structured attacks on the abstract level: declared size vs actual macroblocks, zero sizes, extremes
        attacks = []
        for (w, h) in [(16, 16), (32, 16)]:
            for (dw, dh) in [(0, 0), (0, 16), (16, 0), (1, 1), (15, 15), (17, 17), (32, 32), (33, 16), (16, 33), (255, 255), (64, 1),
                             (65535, 1), (1, 65535), (65521, 16), (16, 65530), (4095, 1)]:
                for ver in (0, 1):
                    for pt in ("I", "P"):
                        hdr = sor_hdr(rng, pt, 3, w, h, ver)
                        p = pg.intra_picture(rng, hdr, big=False) if pt == "I" else pg.inter_picture(rng, hdr, big=False)
                        p["w"], p["h"] = dw, dh          # declared size differs from the macroblocks present
                        if dw > 255 or dh > 255:
                            p["sc"] = 1
                        attacks.append({"op": "x", "pic": p, "tag": "declare-%dx%d" % (dw, dh), "opaque": True, "w": w, "h": h, "ver": ver, "sor": True})
        for ver in (0, 1):
            for q in (1, 2, 30, 31):
                for lev in ([1, 63, 127] if ver == 0 else [1, 63, 127, 528, 529, 1023]):
                    for sgn in (1, -1):
                        form = 1 if (ver == 0 or lev <= 63) else 2
                        blocks = [{"dc": 255, "ev": [[0, 0, sgn * lev, form], [0, 62, -sgn * lev, form], [1, 0, sgn * lev, form]]} for _ in range(6)]
                        p = one_mb_intra(rng, ver, q, 15, 3, blocks=blocks)       # run past 64 and extreme levels
                        attacks.append({"op": "x", "pic": p, "tag": "run-past-64", "opaque": True, "w": 16, "h": 16, "ver": ver, "sor": True})
        for ver in (0, 1):      # vectors far outside: chains of extreme differentials
            for d in (-32, 31):
                hdr = sor_hdr(rng, "P", 4, 48, 32, ver)
                p = dict(hdr)
                p["mbs"] = [pg.coded_mb(rng, rng.choice([0, 2]), ver == 1, mvd=None, big=False) for _ in range(6)]
                for m in p["mbs"]:
                    m["mvd"] = [[d, d] for _ in m["mvd"]]
                attacks.append({"op": "x", "pic": p, "tag": "vectors-far-outside", "opaque": True, "w": 48, "h": 32, "ver": ver, "sor": True})
        # Annex D in standard mode: PLUSPTYPE header with UMV, differentials in the Table D.3 code up to +-4095 half-pels,
        # chained along a macroblock row so that predictors accumulate (limited and unlimited UUI, one and four vectors)
        umv = []
        for (w, h) in [(48, 32), (160, 16), (16, 16)]:
            umv.append({"op": "x", "pic": pg.intra_picture(rng, pg.header("plus", "I", tr=0, q=rng.randrange(1, 32), w=w, h=h), big=False),
                        "tag": "umv-I", "opaque": True, "w": w, "h": h})
            for uui in (1, 2):
                for kinds in ([0], [2], [0, 2, 5]):
                    for d in ([4095, 4095], [-4095, -4095], [4095, -4095], [2047, 1], [-1024, 513], [63, -64], [31, -32], None):
                        hdr = pg.header("plus", "P", tr=1, q=rng.randrange(1, 32), w=w, h=h)
                        hdr["umv"], hdr["uui"] = 1, uui
                        p = dict(hdr)
                        p["mbs"] = [pg.coded_mb(rng, rng.choice(kinds), False, mvd=None, big=False) for _ in range(pg.nmb(p))]
                        for m in p["mbs"]:
                            m["mvd"] = [(d if d is not None else [rng.randrange(-4095, 4096), rng.randrange(-4095, 4096)]) for _ in m["mvd"]]
                        umv.append({"op": "x", "pic": p, "tag": "umv-extreme-vectors", "opaque": True, "w": w, "h": h})
        enc = run.encode(base + attacks + umv)
        encbase, encatt, encumv = enc[:len(base)], enc[len(base):len(base) + len(attacks)], enc[len(base) + len(attacks):]
        byt = lambda tag, w, h, ver, sor: [c["bytes"] for c in encbase if c["tag"] == tag and c["w"] == w and c["h"] == h and c["ver"] == ver and c["sor"] == sor]
        # ---- histories of opaque calls
        H = Hist()

        def call(b, why):
            H.op("newreader")
            H.decode(None, bytes=b, planes=False, why=why, guard_size=True)
            ncalls[0] += 1

        combos = [(True, False), (True, True), (False, False), (False, True)]
        nrep = 10
        # (a) every structured attack after every kind of prior history, all option combinations
        prehist = [[], ["I"], ["I", "P"], ["I", "D"], ["I", "X"], ["X"]]
        for rep in range(1):
            for a in encatt:
                for pre in prehist:
                    for (sor, scal) in (combos if rep == 0 else [rng.choice(combos)]):
                        H.new(sor=sor, scal=scal)
                        for t in pre:
                            if t == "X":
                                call(rng.choice(GARBAGE), "garbage")
                            else:
                                cand = byt(t, a["w"], a["h"], a["ver"], True)
                                call(rng.choice(cand), "valid-" + t)
                        call(a["bytes"], a["tag"])
                        # and something valid afterwards: the decoder must still be usable
                        cand = byt("P", a["w"], a["h"], a["ver"], True)
                        call(rng.choice(cand), "valid-P-after")
        # (a2) Annex D attacks: I, then the UMV picture (twice: the second is predicted from whatever the first left), then a plain P
        for a in encumv:
            if a["tag"] != "umv-extreme-vectors":
                continue
            ipic = [c["bytes"] for c in encumv if c["tag"] == "umv-I" and c["w"] == a["w"] and c["h"] == a["h"]][0]
            for pre in ([], ["I"]):
                H.new(sor=False)
                if pre:
                    call(ipic, "valid-I")
                call(a["bytes"], a["tag"])
                call(a["bytes"], a["tag"])
                cand = byt("P", 16, 16, 0, False)
                call(rng.choice(cand), "valid-P-after")
        # (b) truncation of valid pictures at every byte, in histories
        for c in encbase:
            if c["w"] * c["h"] > 32 * 32 and tier == "quick":
                continue
            step = 1 if len(c["bytes"]) < 200 or tier == "thorough" else 3
            for cut in range(0, len(c["bytes"]), step):
                H.new(sor=c["sor"])
                if c["tag"] != "I":
                    cand = byt("I", c["w"], c["h"], c["ver"], c["sor"])
                    call(cand[0], "valid-I")
                call(c["bytes"][:cut], "truncate-at-%s" % ("every-byte"))
        # (c) random corruptions of valid pictures inside random histories, incl. picture-size changes between calls
        for i in range(1500 * nrep):
            sor, scal = rng.choice(combos)
            H.new(sor=sor, scal=scal)
            for k in range(rng.randrange(1, 9)):
                c = rng.choice(encbase)
                if rng.random() < 0.45:
                    call(c["bytes"], "valid-" + c["tag"])
                else:
                    b, why = mutate(rng, c["bytes"])
                    call(b, why)
        # (d) uniform random bytes behind a valid start code, and plain random bytes
        for i in range(2500 * nrep):
            sor, scal = rng.choice(combos)
            H.new(sor=sor, scal=scal)
            if rng.random() < 0.5:
                c = rng.choice(encbase)
                call(c["bytes"], "valid-" + c["tag"])
            n = rng.randrange(0, 120)
            if sor:
                b = [0, 0, 0x80 | rng.randrange(0, 4)] + rbytes(rng, n)
            else:
                b = [0, 0, 0x80, rng.randrange(0, 4)] + rbytes(rng, n)
            r_ = rng.random()
            if r_ < 0.5:        # a valid header (and a little macroblock data) followed by random bytes: goes deep
                c = rng.choice(encbase)
                k = rng.randrange(4, min(len(c["bytes"]), 14) + 1)
                call(c["bytes"][:k] + rbytes(rng, n), "valid-header-then-random")
            else:
                call(b if r_ < 0.93 else rbytes(rng, n), "random-bytes")
        # (f) many calls through ONE reader (a stream): valid pictures of all kinds one after the other - their ends fall on every
        #     bit alignment, so the reader's buffer is drained and refilled at every phase - with a corrupted one now and then
        for i in range(40 * nrep):
            sor = rng.random() < 0.8
            H.new(sor=sor, maxread=rng.choice([0, 0, 0, 1, 5]), noprobe=(i % 2 == 0))
            H.op("newreader")
            pool_ = [c for c in encbase if c["sor"] == sor]
            for k in range(rng.randrange(6, 30)):
                c = rng.choice(pool_)
                if rng.random() < 0.9:
                    b, why = c["bytes"], "stream-valid-" + c["tag"]
                else:
                    b, why = mutate(rng, c["bytes"])
                    why = "stream-" + why
                H.decode(None, bytes=b, planes=False, why=why, guard_size=True)
                ncalls[0] += 1
        # (e) every header the clause-5.1 model can express (PictureHeader.tla: all OPPTYPE / MPPTYPE modes, custom clock
        #     and extended TR, PAR, UUI, SSS, layers, RPS fields, PB types, UFEP = 000 inheritance) in front of REAL
        #     macroblock data taken from the pictures above (bits after the header), in histories
        from . import hdrgen
        tails = []
        for c in encumv + [c for c in encbase if not c["sor"]]:
            bits = [(byte >> (7 - k)) & 1 for byte in c["bytes"] for k in range(8)][c["hbits"]:c["nbits"]]
            bits += [0] * ((8 - len(bits) % 8) % 8)
            tb = [sum(bits[i + k] << (7 - k) for k in range(8)) for i in range(0, len(bits), 8)]
            p = c["pic"]
            tails.append({"bytes": tb, "w": p["w"], "h": p["h"], "intra": p["pt"] == "I", "umv": p.get("umv", 0), "uui": p.get("uui", 1)})
        hcmds = []
        nfull = 600 * nrep
        for i in range(nfull):
            t = rng.choice(tails)
            h = hdrgen.rand_plus(rng, ufep=1 if rng.random() < 0.8 else 0)
            h["oflags"] = [1 if rng.random() < 0.12 else 0 for _ in range(10)]
            h["par"] = rng.choice([1, 2, 3, 4, 5, 15])
            if rng.random() < 0.85:     # a header that matches the macroblock data: decoding goes all the way
                h.update(ofmt=6, pwi=t["w"] // 4 - 1, phi=t["h"] // 4, mtype=0 if t["intra"] else 1, uui=1 if t["uui"] == 1 else 0)
                h["oflags"][0] = t["umv"]
                h["q"] = rng.randrange(1, 32)
                if rng.random() < 0.7:
                    h["oflags"][9] = 0          # modified quantization is rejected at the first coded macroblock
            prevopts = [o for o in hdrgen.OPP if rng.random() < 0.2]
            hcmds.append({"op": "x", "hdr": h, "scal": rng.random() < 0.25, "prevopts": prevopts,
                          "tail": t["bytes"] + (rbytes(rng, rng.randrange(0, 12)) if rng.random() < 0.3 else []), "intra": t["intra"],
                          "w": t["w"], "h": t["h"]})
        enchdr = encode_headers(run, hcmds)
        for i in range(0, len(enchdr), 3):
            grp = enchdr[i:i + 3]
            H.new(sor=False, scal=grp[0]["scal"])
            if rng.random() < 0.7:
                cand = [c["bytes"] for c in encumv if c["tag"] == "umv-I" and c["w"] == grp[0]["w"] and c["h"] == grp[0]["h"]] or \
                       byt("I", grp[0]["w"], grp[0]["h"], 0, False)
                if cand:
                    call(cand[0], "valid-I")
            for c in grp:
                call(c["bytes"], "full-header-" + ("ufep0" if c["hdr"]["ufep"] == 0 else "I" if c["intra"] else "P"))
        run.drive_and_validate(H.cmds, "TraceDecoder", group=hkey, sample=3, stat_fn=decode_stat, timeout_ms=30000,
                               resync=lambda c: c["op"] == "new")
        nhist += H.n
        for c in H.cmds:
            if c["op"] == "decode":
                distinct.add(hash(json.dumps(c.get("bytes"))))
    run.evaluations = ncalls[0]
    run.nontrivial = len(distinct)
    run.notes["decode_calls"] = ncalls[0]
    run.notes["histories"] = nhist
    run.notes["rounds"] = rounds
    run.assumptions = ["inputs declaring more than 2^22 luma samples are not generated (the property's stated exclusion)",
                       "memory safety proper is delegated to safe Rust (the three crates contain no unsafe code); the harness "
                       "build has overflow checks and debug assertions enabled, so arithmetic overflow is observed as a panic"]
    return run.finish(
        rule="decode calls on: (a) structured attacks built on the abstract picture syntax and encoded by TLC (declared size vs "
             "macroblocks present over {0,1,15,16,17,32,33,64,255}, zero sizes, runs past 64 with extreme levels at boundary "
             "quantizers, chains of extreme vector differentials) after six kinds of prior history x four option combinations; "
             "(b) truncation of valid pictures at every byte; (c) 1-3 bit flips, splices, appended garbage, inserted zeros inside "
             "random histories of valid / invalid pictures with size changes; (d) random bytes behind a start code; (a2) PLUSPTYPE + "
             "UMV pictures with Table D.3 differentials up to +-4095 chained along rows; (e) every clause-5.1 header in front of real "
             "macroblock data; (f) streams of 6-30 calls through one reader; every call "
             "runs in an isolated driver process with a watchdog; TLC validates every history: the outcome must be ok or err and "
             "the observable state consistent with it; distinct = distinct byte strings")


# =========================================================================== C05
def faulty_pictures(rng, w, h, ver, have_ref):
    """inputs that must not be (or need not be) decodable, one per error site; all 'opaque' for the validator"""
    out = []
    def base(pt):
        hdr = sor_hdr(rng, pt, rng.randrange(256), w, h, ver)
        return pg.intra_picture(rng, hdr, big=False) if pt == "I" else pg.inter_picture(rng, hdr, pt=pt, big=False,
                                                                                        mix=[1, 5, 2, 3, 1, 1, 1])
    # header level
    p = base("I"); p["sc"] = 7; out.append(("header-reserved-size", p))
    p = base("I"); p["pt"] = "R"; out.append(("header-reserved-type", p))
    # macroblock header level
    for fault in ("mcbpc", "cbpy", "tcoef"):
        for pt in ("I", "P"):
            p = base(pt)
            idx = [i for i, m in enumerate(p["mbs"]) if m["k"] == "mb"]
            if not idx:
                continue
            i = rng.choice(idx)
            p["mbs"][i]["fault"] = fault
            p["mbs"] = p["mbs"][:i + 1]
            out.append(("%s-%s" % (fault, pt), p))
    p = base("P")
    idx = [i for i, m in enumerate(p["mbs"]) if m["k"] == "mb" and m["t"] not in (3, 4)]
    if idx:
        i = rng.choice(idx); p["mbs"][i]["fault"] = "mvd"; p["mbs"] = p["mbs"][:i + 1]
        out.append(("mvd-P", p))
    # block level: forbidden INTRADC codes, escape with level 0
    for dc in (0, 128):
        p = base("I")
        i = rng.randrange(len(p["mbs"]))
        if p["mbs"][i]["k"] == "mb":
            p["mbs"][i]["b"][rng.randrange(6)]["dc"] = dc
            out.append(("intradc-%d" % dc, p))
    p = base("I")
    for m in p["mbs"]:
        if m["k"] == "mb":
            for b in m["b"]:
                if b["ev"]:
                    b["ev"][0] = [b["ev"][0][0], b["ev"][0][1], 0, 1]
                    break
    out.append(("escape-level-0", p))
    return out


@plan("C05")
def c05(tier, seed):
    run = Run("C05", tier, seed)
    rng = random.Random(seed)
    run.model_check("MCDecoder", "MCDecoder", workers=8, xmx="4g")      # FailureIsNoOp on the model
    H = Hist()
    sites = {}
    # (1) failing inputs at every depth inside histories, followed by valid continuations
    reps = 6 if tier == "quick" else 200
    for rep in range(reps):
        for (w, h) in [(16, 16), (33, 17)]:
            ver = rep % 2
            for prefix in (["I"], ["I", "P"], ["I", "P", "D"], []):
                faults = faulty_pictures(rng, w, h, ver, bool(prefix))
                if not prefix:
                    faults = [("no-reference", pg.inter_picture(rng, sor_hdr(rng, "P", 3, w, h, ver), big=False, mix=[1, 5, 2, 3, 0, 0, 0]))]
                for name, fp in (faults if rep == 0 or tier == "thorough" else rng.sample(faults, min(4, len(faults)))):
                    H.new()
                    for k, t in enumerate(prefix):
                        H.op("newreader")
                        hdr = sor_hdr(rng, t, k, w, h, ver)
                        H.decode(pg.intra_picture(rng, hdr, big=False) if t == "I" else pg.inter_picture(rng, hdr, pt=t, big=False))
                    H.op("newreader")
                    if name == "no-reference":
                        H.decode(fp)        # pixel mode: the specification itself demands the rejection
                    else:
                        H.decode(fp, opaque=True, why=name)
                    sites[name] = sites.get(name, 0) + 1
                    # garbage and a truncated header, then valid continuations
                    H.op("newreader")
                    H.decode(None, bytes=rng.choice(GARBAGE), why="garbage")
                    for k, t in enumerate(["I"] if not prefix else rng.choice([["P", "D", "P"], ["D", "I", "P"], ["P"]])):
                        H.op("newreader")
                        hdr = sor_hdr(rng, t, 10 + k, w, h, ver)
                        H.decode(pg.intra_picture(rng, hdr, big=False) if t == "I" else pg.inter_picture(rng, hdr, pt=t, big=False))
    # (2) split delivery: every byte split point of an I and of a P picture
    splits = []
    for rep in range(2 if tier == "quick" else 60):
        w, h = rng.choice([(16, 16), (32, 16), (17, 9)])
        ver = rep % 2
        ipic = pg.intra_picture(rng, sor_hdr(rng, "I", 0, w, h, ver), big=False, shape="sparse")
        ppic = pg.inter_picture(rng, sor_hdr(rng, "P", 1, w, h, ver), big=False, shape="sparse", mix=[1, 5, 2, 3, 1, 1, 1])
        splits.append((ipic, ppic))
    # the split points depend on the encoded length: encode first, then build the histories
    probe_cmds = []
    for i, (ipic, ppic) in enumerate(splits):
        probe_cmds += [{"op": "x", "pic": ipic, "k": i, "t": "I"}, {"op": "x", "pic": ppic, "k": i, "t": "P"}]
    encp = run.encode(probe_cmds)
    lens = {(c["k"], c["t"]): len(c["bytes"]) for c in encp}
    nsplit = 0
    for i, (ipic, ppic) in enumerate(splits):
        for target in ("I", "P"):
            n = lens[(i, target)]
            for cut in range(1, n):
                H.new(maxread=rng.choice([0, 0, 1, 2, 3]))      # the source may also hand out its bytes in small pieces
                if target == "P":
                    H.decode(json.loads(json.dumps(ipic)))
                    H.op("newreader")
                pic = json.loads(json.dumps(ipic if target == "I" else ppic))
                H.cmds.append({"op": "split", "d": 0, "h": H.n, "pic": pic, "cut": cut})
                nsplit += 1
    # ... and of LARGE pictures (several thousand bytes: whatever the reader does with the bytes it has gone through - keep,
    # compact, drop - a failed call must leave it where it was): cuts late in the data; judged without recomputing pixels
    # (the first call's outcome, the unchanged state and the reader probe)
    for rep in range(2 if tier == "quick" else 24):
        ver = rep % 2
        big = pg.intra_picture(rng, sor_hdr(rng, "I", 3, 144, 112, ver), big=True, shape="dense")
        # (cut position in per mille of the encoded length; integers only: the commands travel through TLC, which has no reals)
        for pm in ([550, 800, 930, 999] if tier == "quick" else [100, 300, 500, 550, 700, 800, 900, 930, 970, 999]):
            H.new(maxread=rng.choice([0, 0, 3]))
            H.cmds.append({"op": "split", "d": 0, "h": H.n, "pic": json.loads(json.dumps(big)), "permille": pm, "large": True})
            nsplit += 1
    enc = run.encode(H.cmds)
    # expand "split" pseudo commands: append first part, decode (opaque), append rest, decode (pixel, pre)
    out = []
    for c in enc:
        if c["op"] != "split":
            out.append(c)
            continue
        b = c["bytes"]
        cut = c["cut"] if "cut" in c else max(1, min(len(b) - 1, len(b) * c["permille"] // 1000))
        out.append({"op": "append", "d": 0, "h": c["h"], "bytes": b[:cut]})
        out.append({"op": "decode", "d": 0, "h": c["h"], "bytes": [], "pre": True, "why": "split-first-part", "planes": not c.get("large", False)})
        out.append({"op": "append", "d": 0, "h": c["h"], "bytes": b[cut:]})
        if c.get("large"):
            run.notes["large_picture_bytes"] = max(run.notes.get("large_picture_bytes", 0), len(b))
            out.append({"op": "decode", "d": 0, "h": c["h"], "pic": c["pic"], "bytes": b, "pre": True, "opaque": True, "planes": False,
                        "why": "large-picture-retry"})
        else:
            out.append({"op": "decode", "d": 0, "h": c["h"], "pic": c["pic"], "bytes": b, "pre": True})
    npics = sum(1 for c in out if c["op"] == "decode")
    run.drive_and_validate(out, "TraceDecoder", group=hkey, sample=2, stat_fn=decode_stat)
    run.evaluations = npics
    run.nontrivial = H.n
    run.notes["fault_sites"] = sites
    run.notes["split_points"] = nsplit
    run.notes["decode_calls"] = npics
    return run.finish(
        rule="(1) histories prefix {[], I, IP, IPD} x one failing input per error site (reserved size code, reserved picture "
             "type, forbidden MCBPC / CBPY / MVD / TCOEF prefixes in I and P pictures, INTRADC 0 and 128, escape level 0, missing "
             "reference, garbage) x valid continuations, one reader per call: after every err TLC checks planes, header, "
             "(last, ref, keys), carried options and the reader probe are unchanged and the continuations decode in pixel mode "
             "against the unchanged model state; (2) every byte split point of I and P pictures delivered in two parts: a "
             "first call that fails must leave everything unchanged and the retry after the rest arrived must equal single "
             "delivery (pixel mode); late split points of pictures of about 8000 bytes (outcome, state and reader probe); "
             "distinct = histories")


# =========================================================================== C04
GARBAGE = [[0xFF, 0xEE, 0xDD, 0xCC, 0xBB, 0xAA, 0x99, 0x88], [0x00, 0x00, 0x84], [0x00, 0x00, 0x80, 0x02, 0x1C], [0x12]]


def instantiate_history(H, rng, ops, w=16, h=16, ver=None, newreader=True, sor=True):
    """turn a model history [["I",tr],["P",tr],["D",tr],["R"],["C"]] into decoder commands"""
    ver = rng.randrange(2) if ver is None else ver
    H.new(sor=sor)
    have = False        # standard mode: a picture has been decoded (a UFEP = 000 header may follow)
    for op in ops:
        k = op[0]
        if k == "C":
            H.op("cleanup")
            continue
        if newreader:
            H.op("newreader")
        if not sor and k != "R":
            # standard mode: custom-format PLUSPTYPE headers; temporal references above 255 need the custom picture clock
            # (CPCFC + ETR, ten bits); predicted pictures may leave OPPTYPE out (UFEP = 000) when their TR has eight bits
            k = "P" if k == "D" else k
            hdr = pg.header("plus", k, tr=op[1], q=rng.randrange(1, 32), w=w, h=h)
            if op[1] > 255 or rng.random() < 0.3:
                hdr["pcf"], hdr["cpcfc"] = 1, rng.randrange(256)
            elif k == "P" and have and rng.random() < 0.4:
                hdr["ufep0"] = 1
            if k == "I":
                H.decode(pg.intra_picture(rng, hdr, big=False, shape=rng.choice(["one", "sparse"])))
                have = True
            else:
                p = pg.inter_picture(rng, hdr, big=False, shape="sparse", mix=[3, 5, 1, 2, 1, 0, 0])
                if all(m["k"] == "mb" and m["t"] in (3, 4) for m in p["mbs"] if m["k"] != "stuff"):
                    p["mbs"][-1] = {"k": "skip"}
                H.decode(p)
            continue
        if not sor:
            H.decode(None, bytes=rng.choice(GARBAGE), why="garbage")
            continue
        if k == "R":
            # a rejected call: garbage, or a picture that fails in the header, macroblock or block layer
            if rng.random() < 0.4:
                H.decode(None, bytes=rng.choice(GARBAGE), why="garbage")
            else:
                name, fp = rng.choice(faulty_pictures(rng, w, h, ver, True))
                H.decode(fp, opaque=True, why=name)
        elif k == "I":
            H.decode(pg.intra_picture(rng, sor_hdr(rng, "I", op[1], w, h, ver), big=False, shape=rng.choice(["one", "sparse"])))
        else:
            p = pg.inter_picture(rng, sor_hdr(rng, k, op[1], w, h, ver), pt=k, big=False, shape="sparse",
                                 mix=[3, 5, 1, 2, 1, 0, 0])
            if all(m["k"] == "mb" and m["t"] in (3, 4) for m in p["mbs"] if m["k"] != "stuff"):
                p["mbs"][-1] = {"k": "skip"}          # the model's P/D pictures need their reference
            H.decode(p)


@plan("C04")
def c04(tier, seed):
    run = Run("C04", tier, seed)
    rng = random.Random(seed)
    # (a) the model: reference = last non-disposable picture, for all histories and TR assignments
    #     (design "current": disposable pictures held outside the TR-keyed store; collisions allowed)
    run.model_check("MCDecoder", "MCDecoder" if tier == "quick" else "MCDecoderDeep", workers=8, xmx="4g")
    #     and for histories of ANY length and ANY temporal references 0..1023: inductive invariant discharged by Apalache
    #     (base case Init => IndInv, step IndInv /\ Next => IndInv'; IndInit = any state satisfying IndInv)
    ind = []
    for name, args in (("base", ["--init=Init", "--inv=IndInv", "--length=0"]), ("step", ["--init=IndInit", "--inv=IndInv", "--length=1"]),
                       ("indinit-satisfiable", ["--init=IndInit", "--inv=NotVacuous", "--length=0"])):
        outcome, secs, tail = core.run_apalache("DecoderInd", args, run.work)
        want = "Error" if name == "indinit-satisfiable" else "NoError"
        ind.append({"obligation": name, "outcome": outcome, "expected": want, "wall_s": round(secs, 1)})
        if outcome != want:
            if outcome == "Error" and name in ("base", "step"):
                run.impl_diags.append(({"l": 0, "cls": "IMPL", "what": "inductive-invariant-violated", "sig": "decoder-model-invariant-not-inductive",
                                        "detail": name}, [{"op": "model", "module": "DecoderInd", "args": args}]))
            else:
                run.tool_errors.append("apalache %s: outcome %s\n%s" % (name, outcome, tail))
    run.notes["apalache_inductive_invariant"] = ind
    # (b) every behaviour of the model up to a length, replayed with real pictures
    gens = []
    r = run_gen_bfs(run, "MCDecoder", "MCDecoderGen3" if tier == "quick" else "MCDecoderGen4")
    gens += r
    if tier == "thorough":      # and a sample of the 161 051 histories of length 5
        g5 = run_gen_bfs(run, "MCDecoder", "MCDecoderGen5")
        rng.shuffle(g5)
        gens += g5[:40000]
    sim = run.generate_sim("MCDecoder", "MCDecoderSim", num=(20 if tier == "quick" else 300), depth=12,
                           seeds=[seed * 100 + k for k in range(8)])
    rng.shuffle(sim)
    gens += sim[:(300 if tier == "quick" else 6000)]
    H = Hist()
    for g in gens:
        instantiate_history(H, rng, g["ops"])
    # (c) long random histories with arbitrary 8-bit temporal references, repeats and wrap-around
    for i in range(40 if tier == "quick" else 600):
        n = rng.randrange(5, 41)
        tr = rng.randrange(256)
        ops = []
        for k in range(n):
            r_ = rng.random()
            if r_ < 0.12:
                ops.append(["R"])
            elif r_ < 0.2:
                ops.append(["C"])
            else:
                kind = rng.choices(["I", "P", "D"], weights=[2, 5, 3])[0]
                tr = rng.choice([tr, (tr + 1) % 256, (tr + 1) % 256, (tr + 1) % 256, rng.randrange(256), 255, 0])
                ops.append([kind, tr])
        instantiate_history(H, rng, ops, w=rng.choice([16, 17, 32]), h=rng.choice([16, 9]))
    # (d) standard mode with the custom picture clock: ten-bit temporal references (ETR), among them values that agree in
    #     their low eight bits (t, t + 256, t + 512): a store keyed by the temporal reference must keep them apart
    nstd = 0
    for i in range(30 if tier == "quick" else 500):
        n = rng.randrange(4, 16)
        base_tr = rng.randrange(256)
        ops = [["I", rng.choice([base_tr, base_tr + 256 * rng.randrange(4)])]]
        for k in range(n):
            r_ = rng.random()
            if r_ < 0.1:
                ops.append(["R"])
            elif r_ < 0.2:
                ops.append(["C"])
            else:
                tr = rng.choice([base_tr, base_tr + 256, base_tr + 512, base_tr + 768, (base_tr + 1) % 256, rng.randrange(1024), 1023, 0])
                ops.append([rng.choices(["I", "P"], weights=[2, 6])[0], tr])
        instantiate_history(H, rng, ops, w=rng.choice([16, 20, 32]), h=rng.choice([16, 12]), sor=False)
        nstd += 1
    npics = sum(1 for c in H.cmds if c["op"] == "decode")
    enc = run.encode(H.cmds)
    run.drive_and_validate(enc, "TraceDecoder", group=hkey, sample=2)
    run.evaluations = npics
    run.nontrivial = H.n
    run.notes["histories"] = H.n
    run.notes["standard_mode_histories_with_10_bit_temporal_references"] = nstd
    run.notes["decode_calls"] = npics
    return run.finish(
        rule="model: all histories over {I,P,D,Reject,Cleanup} of length <= 6 with TRs from {0,1,255} (two-layer Decoder.tla, "
             "invariant RefIsLastNonDisposable); implementation: every model history of length %d exported by TLC, simulated "
             "longer ones, and random histories of up to 40 calls with arbitrary 8-bit TRs, each instantiated with distinct "
             "16x16 pictures (I: fresh content; P/D: not-coded + moved + residual macroblocks), one reader per call, plus standard-"
             "mode histories with ten-bit temporal references (custom picture clock, values equal modulo 256); after every "
             "call the last picture's planes and header, the hook state (last, ref, store keys) and the predicted picture's "
             "planes are validated against the requirement-level model; distinct = histories" % (3 if tier == "quick" else 4))


def run_gen_bfs(run, module, cfg, timeout=1800):
    """exhaustive export: every maximal history of the generation config (hist is part of the state)"""
    r = core.run_tlc(module, cfg, workdir=run.work, timeout=timeout, xmx="4g")
    if r.error:
        run.tool_errors.append("generation %s/%s: %s\n%s" % (module, cfg, r.error, r.raw_tail))
    run.states += r.distinct
    run.transitions += r.generated
    gens = [json.loads(x[4:]) for x in r.prints if x.startswith("GEN ")]
    run.mc_runs.append({"module": module, "cfg": cfg, "mode": "exhaustive export", "behaviours": len(gens),
                        "distinct": r.distinct, "wall_s": round(r.wall, 1)})
    return gens


# =========================================================================== replay
def replay(pid, path, seed):
    rec = json.load(open(path))
    run = Run(pid, "quick", seed)
    cmds = rec["commands"]
    module = REPLAY_MODULE[pid]
    if any("pic" in c for c in cmds):
        for c in cmds:
            c.pop("bytes", None)
        cmds = run.encode(cmds, nshards=1)
    ops = {c.get("op") for c in cmds}
    also = [m for m, o in (("TraceParse", "parse"), ("TracePost", "post")) if o in ops and module == "TraceDecoder"]
    if "threads" in ops:
        run.drive_and_validate(cmds, module, nshards=1, post_fn=split_threads)
    elif cmds and cmds[0].get("op") == "model":
        log("model-level finding: re-run the property's check to reproduce (%s)" % json.dumps(cmds[0]))
    else:
        run.drive_and_validate(cmds, module, nshards=1, group=(lambda c: 0), also=also)
    return run.finish(rule="replay of %s" % path, write_evidence=False)      # a replay does not replace the check's evidence


REPLAY_MODULE = {"C07": "TraceYuv", "C08": "TraceYuv", "C09": "TraceDeblock", "C16": "TraceDeblock", "C14": "TraceBitReader", "C02": "TraceDecoder", "C03": "TraceDecoder", "C04": "TraceDecoder", "C05": "TraceDecoder", "C15": "TraceDecoder",
                 "C01": "TraceDecoder", "C17": "TraceDecoder", "C11": "TraceDecoder", "C13": "TraceDecoder", "C10": "TraceRecon", "C12": "TraceRecon", "C06": "TraceHeader"}
