"""Per-property check plans (DESIGN.md section 5)."""
import json
import os
import random

from . import core
from .core import Run

PLANS = {}


def plan(pid):
    def deco(f):
        PLANS[pid] = f
        return f
    return deco


def rbytes(rng, n):
    return [rng.randrange(256) for _ in range(n)]


# =========================================================================== C07
@plan("C07")
def c07(tier, seed):
    run = Run("C07", tier, seed)
    rng = random.Random(seed)
    # (a) the model: lemmas over all 2^24 triples (within 1 of the real formula, monotone, alpha)
    run.model_check_sharded("MCYuv", nshards=16)
    # (b) the implementation: every (Cb,Cr) pair x a set of luma values through yuv420_to_rgba
    if tier == "thorough":
        ys = list(range(256))
        run.exhaustive = True
    else:
        must = [0, 1, 15, 16, 17, 18, 125, 126, 127, 128, 129, 234, 235, 236, 254, 255]
        rest = [v for v in range(256) if v not in must]
        rng.shuffle(rest)
        ys = sorted(must + rest[:16])
    cmds = [{"op": "yuv_sweep", "ys": ys[i:i + 4]} for i in range(0, len(ys), 4)]
    run.drive_and_validate(cmds, "TraceYuv", sample=2)
    run.evaluations = len(ys) * 65536
    run.nontrivial = len(ys) * 65536
    run.notes["triples_checked_against_implementation"] = len(ys) * 65536
    run.assumptions = ["4x1 pictures exercise the vector body of the converter; the remainder path is C08's domain"]
    return run.finish(
        rule="model: all 2^24 (Y,Cb,Cr) in MCYuv (256 states, invariant quantifies over 2^16 chroma pairs each); "
             "implementation: for each selected luma value all 65536 (Cb,Cr) pairs through yuv420_to_rgba on 4x1 "
             "pictures (%d luma values; thorough = all 256 = the whole domain); every triple is a distinct case" % len(ys))


# =========================================================================== C08
@plan("C08")
def c08(tier, seed):
    run = Run("C08", tier, seed)
    rng = random.Random(seed)
    wmax, hmax = (40, 24) if tier == "quick" else (100, 40)
    cmds = [{"op": "yuv", "w": 0, "y": [], "cb": [], "cr": []}]
    for w in range(1, wmax + 1):
        for h in range(1, hmax + 1):
            cw, ch = (w + 1) // 2, (h + 1) // 2
            cmds.append({"op": "yuv", "w": w, "y": rbytes(rng, w * h), "cb": rbytes(rng, cw * ch),
                         "cr": rbytes(rng, cw * ch)})
    # a few large sizes spanning many SIMD groups
    for (w, h) in [(176, 144), (177, 3), (353, 2), (3, 301)] if tier == "thorough" else [(177, 3), (131, 2)]:
        cw, ch = (w + 1) // 2, (h + 1) // 2
        cmds.append({"op": "yuv", "w": w, "y": rbytes(rng, w * h), "cb": rbytes(rng, cw * ch),
                     "cr": rbytes(rng, cw * ch)})
    run.model_check("MCYuvPairing")
    run.drive_and_validate(cmds, "TraceYuv", sample=2)
    run.evaluations = len(cmds)
    run.nontrivial = len(cmds)
    return run.finish(
        rule="every (w,h) in 1..%d x 1..%d (all residues mod 4 / mod 2, 1-pixel rows and columns) with seeded random "
             "plane content, plus the documented empty picture and a few sizes spanning many SIMD groups; each size "
             "is a distinct case; TLC recomputes all w*h pixels from Yuv!Convert" % (wmax, hmax))


# =========================================================================== replay
def replay(pid, path, seed):
    rec = json.load(open(path))
    run = Run(pid, "quick", seed)
    cmds = rec["commands"]
    module = REPLAY_MODULE[pid]
    run.drive_and_validate(cmds, module, nshards=1, group=(lambda c: 0))
    return run.finish(rule="replay of %s" % path)


REPLAY_MODULE = {"C07": "TraceYuv", "C08": "TraceYuv"}
