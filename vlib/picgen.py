"""Abstract pictures (the input language of Picture.tla).  This module only builds *abstract* values:
macroblock types, coded-block patterns, differentials, (last, run, level) events.  It knows nothing about
code words or reconstruction - bits and pixels are computed from these values by TLC."""
import random

# which (last, run) pairs have a Table-16 code, and up to which level (structure of the table, DESIGN.md App. A)
SHORT_MAX = {}
for run, n in [(0, 12), (1, 6), (2, 4), (3, 3), (4, 3), (5, 3), (6, 3), (7, 2), (8, 2), (9, 2), (10, 2)] + [(r, 1) for r in range(11, 27)]:
    SHORT_MAX[(0, run)] = n
for run, n in [(0, 3), (1, 2)] + [(r, 1) for r in range(2, 41)]:
    SHORT_MAX[(1, run)] = n


def has_short(last, run, level):
    return abs(level) <= SHORT_MAX.get((last, run), 0)


def mbw(w):
    return (w + 15) // 16


def event(last, run, level, ver1, rng=None, force=None):
    """choose a legal form for the event: 0 short, 1 escape, 2 long escape (Sorenson v1)"""
    forms = []
    if has_short(last, run, level):
        forms.append(0)
    if ver1:
        if abs(level) <= 63:
            forms.append(1)
        forms.append(2)
    else:
        if abs(level) <= 127:
            forms.append(1)
    if force is not None and force in forms:
        return [last, run, level, force]
    if rng is None:
        return [last, run, level, forms[0]]
    # prefer the short form most of the time (as an encoder would) but exercise escapes too
    if 0 in forms and rng.random() < 0.7:
        return [last, run, level, 0]
    return [last, run, level, rng.choice(forms)]


def rand_level(rng, ver1, big):
    r = rng.random()
    if r < 0.55:
        m = rng.randrange(1, 4)
    elif r < 0.85:
        m = rng.randrange(1, 13)
    elif r < 0.97 or not big:
        m = rng.randrange(1, 64 if ver1 else 128)
    else:
        m = rng.randrange(64, 1024) if ver1 else rng.randrange(1, 128)
    return m if rng.random() < 0.5 else -m


def rand_events(rng, intra, ver1, shape=None, big=True, maxq_safe=None):
    """a coded block: list of events ending with last=1. shape: None|'dense'|'row'|'col'|'one'|'sparse'"""
    start = 1 if intra else 0
    shape = shape or rng.choice(["one", "sparse", "sparse", "dense", "row", "col"])
    # zig-zag positions (scan indices) we want non-zero
    if shape == "one":
        idx = [rng.randrange(start, 64)]
    elif shape == "dense":
        n = rng.randrange(8, 40)
        idx = sorted(rng.sample(range(start, 64), min(n, 64 - start)))
    elif shape == "row":       # first row only: scan indices of (u,0)
        cand = [k for k in ROW0 if k >= start]
        idx = sorted(rng.sample(cand, rng.randrange(1, len(cand) + 1)))
    elif shape == "col":
        cand = [k for k in COL0 if k >= start]
        idx = sorted(rng.sample(cand, rng.randrange(1, len(cand) + 1)))
    else:
        n = rng.randrange(1, 7)
        idx = sorted(rng.sample(range(start, 24), n))
    evs, prev = [], start
    for j, k in enumerate(idx):
        run = k - prev
        prev = k + 1
        lev = rand_level(rng, ver1, big)
        if maxq_safe is not None and abs(lev) > maxq_safe:
            lev = maxq_safe if lev > 0 else -maxq_safe
        evs.append(event(1 if j == len(idx) - 1 else 0, run, lev, ver1, rng))
    return evs


# scan indices (0-based) of the first row / first column of the block, from the zig-zag order of Figure 14
ZZ = [(0, 0), (1, 0), (0, 1), (0, 2), (1, 1), (2, 0), (3, 0), (2, 1), (1, 2), (0, 3), (0, 4), (1, 3), (2, 2), (3, 1), (4, 0), (5, 0),
      (4, 1), (3, 2), (2, 3), (1, 4), (0, 5), (0, 6), (1, 5), (2, 4), (3, 3), (4, 2), (5, 1), (6, 0), (7, 0), (6, 1), (5, 2), (4, 3),
      (3, 4), (2, 5), (1, 6), (0, 7), (1, 7), (2, 6), (3, 5), (4, 4), (5, 3), (6, 2), (7, 1), (7, 2), (6, 3), (5, 4), (4, 5), (3, 6),
      (2, 7), (3, 7), (4, 6), (5, 5), (6, 4), (7, 3), (7, 4), (6, 5), (5, 6), (4, 7), (5, 7), (6, 6), (7, 5), (7, 6), (6, 7), (7, 7)]
ROW0 = [k for k, (u, v) in enumerate(ZZ) if v == 0]
COL0 = [k for k, (u, v) in enumerate(ZZ) if u == 0]


def rand_dc(rng):
    r = rng.random()
    if r < 0.1:
        return rng.choice([1, 2, 127, 129, 254, 255])
    c = rng.randrange(1, 256)
    return c if c != 128 else 129


def block(intra, coded, rng, ver1, shape=None, big=True, maxq_safe=None):
    return {"dc": rand_dc(rng) if intra else -1,
            "ev": rand_events(rng, intra, ver1, shape, big, maxq_safe) if coded else []}


def coded_mb(rng, t, ver1, cbpc=None, cbpy=None, dq=None, mvd=None, shape=None, big=True, maxq_safe=None):
    intra = t in (3, 4)
    cbpc = rng.randrange(4) if cbpc is None else cbpc
    cbpy = rng.randrange(16) if cbpy is None else cbpy
    hasdq = t in (1, 4, 5)
    if hasdq:
        dq = rng.choice([-2, -1, 1, 2]) if dq is None else dq
    else:
        dq = 0
    nmv = 0 if intra else (4 if t in (2, 5) else 1)
    if mvd is None:
        mvd = [[rand_mvd(rng), rand_mvd(rng)] for _ in range(nmv)]
    flags = [(cbpy >> (3 - b)) & 1 for b in range(4)] + [cbpc >> 1, cbpc & 1]
    return {"k": "mb", "t": t, "cbpc": cbpc, "cbpy": cbpy, "dq": dq, "mvd": mvd,
            "b": [block(intra, bool(f), rng, ver1, shape, big, maxq_safe) for f in flags]}


def rand_mvd(rng):
    r = rng.random()
    if r < 0.3:
        return rng.randrange(-3, 4)
    if r < 0.4:
        return rng.choice([-32, -31, 31, 30, 0])
    return rng.randrange(-32, 32)


def header(hk, pt, tr, q, w=16, h=16, ver=0, sc=None, db=0, pei=None, pad=0, fmt=1):
    p = {"hk": hk, "pt": pt, "tr": tr, "q": q, "db": db, "pei": pei or [], "pad": pad,
         "ver": ver, "sc": 0, "w": w, "h": h, "fmt": fmt}
    if hk == "sor":
        if sc is None:
            sc = 0 if (w < 256 and h < 256) else 1
        p["sc"] = sc
    return p


def dims(p):
    if p["hk"] == "sor":
        return {2: (352, 288), 3: (176, 144), 4: (128, 96), 5: (320, 240), 6: (160, 120)}.get(p["sc"], (p["w"], p["h"]))
    if p["hk"] == "base":
        return {1: (128, 96), 2: (176, 144), 3: (352, 288), 4: (704, 576), 5: (1408, 1152)}[p["fmt"]]
    return (p["w"], p["h"])


def nmb(p):
    w, h = dims(p)
    return ((w + 15) // 16) * ((h + 15) // 16)


def intra_picture(rng, hdr, shape=None, stuffing=0.0, big=True, dquant=True):
    ver1 = hdr["hk"] == "sor" and hdr["ver"] == 1
    p = dict(hdr)
    p["pt"] = "I"
    mbs = []
    for i in range(nmb(p)):
        while rng.random() < stuffing:
            mbs.append({"k": "stuff"})
        t = 4 if (dquant and rng.random() < 0.3) else 3
        mbs.append(coded_mb(rng, t, ver1, shape=shape, big=big, maxq_safe=safe_level(hdr)))
    p["mbs"] = mbs
    return p


def safe_level(hdr):
    """levels are unrestricted; kept as a hook for experiments"""
    return None


def inter_picture(rng, hdr, pt="P", mix=None, truncate_after=None, stuffing=0.0, big=True, shape=None):
    """mix: weights for [skip, INTER, INTER+Q, INTER4V, INTRA, INTRA+Q, INTER4V+Q]"""
    ver1 = hdr["hk"] == "sor" and hdr["ver"] == 1
    p = dict(hdr)
    p["pt"] = pt
    mix = mix or [3, 5, 2, 3, 1, 1, 1]
    kinds = ["skip", 0, 1, 2, 3, 4, 5]
    n = nmb(p) if truncate_after is None else min(truncate_after, nmb(p))
    mbs = []
    for i in range(n):
        while rng.random() < stuffing:
            mbs.append({"k": "stuff"})
        k = rng.choices(kinds, weights=mix)[0]
        if k == "skip":
            mbs.append({"k": "skip"})
        else:
            mbs.append(coded_mb(rng, k, ver1, big=big, shape=shape))
    # no stuffing after the last macroblock
    p["mbs"] = mbs
    return p
