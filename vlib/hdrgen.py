"""Abstract picture headers (the input language of PictureHeader.tla): per-field exhaustive sweeps and random cross products."""
import random

OPP = ["UNRESTRICTED_MOTION_VECTORS", "SYNTAX_BASED_ARITHMETIC_CODING", "ADVANCED_PREDICTION", "ADVANCED_INTRA_CODING",
       "DEBLOCKING_FILTER", "SLICE_STRUCTURED", "REFERENCE_PICTURE_SELECTION", "INDEPENDENT_SEGMENT_DECODING",
       "ALTERNATIVE_INTER_VLC", "MODIFIED_QUANTIZATION"]


def sor(**kw):
    h = {"k": "sor", "ver": 0, "tr": 0, "sc": 0, "w": 16, "h": 16, "type": 0, "db": 0, "q": 5, "pei": []}
    h.update(kw)
    return h


def base(**kw):
    h = {"k": "std", "tr": 0, "split": 0, "doc": 0, "freeze": 0, "fmt": 2, "ptype": 0, "umv": 0, "sac": 0, "ap": 0, "pb": 0,
         "q": 5, "cpm": 0, "psbi": 0, "trb": 0, "dbq": 0, "pei": []}
    h.update(kw)
    return h


def plus(**kw):
    h = {"k": "std", "tr": 0, "split": 0, "doc": 0, "freeze": 0, "fmt": 7, "ufep": 1, "ofmt": 2, "pcf": 0, "oflags": [0] * 10,
         "mtype": 0, "mflags": [0, 0, 0], "cpm": 0, "psbi": 0, "par": 1, "pwi": 3, "phi": 4, "parw": 1, "parh": 1,
         "cpcfc": 0, "etr": 0, "uui": 1, "sss": [0, 0], "elnum": 0, "rlnum": 0, "rpsmf": 4, "trpi": 0, "trp": 0,
         "q": 5, "trb": 0, "dbq": 0, "pei": [],
         # fields of the baseline layout, unused for PLUSPTYPE headers but present so that records are uniform
         "ptype": 0, "umv": 0, "sac": 0, "ap": 0, "pb": 0}
    h.update(kw)
    return h


def rand_plus(rng, ufep=None):
    h = plus(tr=rng.randrange(256), split=rng.randrange(2), doc=rng.randrange(2), freeze=rng.randrange(2),
             ufep=rng.randrange(2) if ufep is None else ufep, ofmt=rng.randrange(8), pcf=rng.randrange(2),
             oflags=[rng.randrange(2) for _ in range(10)], mtype=rng.randrange(8), mflags=[0, rng.randrange(2), rng.randrange(2)],
             cpm=rng.randrange(2), psbi=rng.randrange(4), par=rng.choice([1, 2, 3, 4, 5, 6, 9, 14, 15]), pwi=rng.randrange(512),
             phi=rng.randrange(512), parw=rng.randrange(1, 256), parh=rng.randrange(1, 256), cpcfc=rng.randrange(256),
             etr=rng.randrange(4), uui=rng.randrange(2), sss=[rng.randrange(2), rng.randrange(2)], elnum=rng.randrange(16),
             rlnum=rng.randrange(16), rpsmf=rng.randrange(8), trpi=rng.randrange(2), trp=rng.randrange(1024), q=rng.randrange(32),
             trb=rng.randrange(8), dbq=rng.randrange(4), pei=[rng.randrange(256) for _ in range(rng.choice([0, 0, 1, 2, 3]))])
    return h


def rand_base(rng):
    return base(tr=rng.randrange(256), split=rng.randrange(2), doc=rng.randrange(2), freeze=rng.randrange(2), fmt=rng.randrange(1, 7),
                ptype=rng.randrange(2), umv=rng.randrange(2), sac=rng.randrange(2), ap=rng.randrange(2), pb=rng.randrange(2),
                q=rng.randrange(32), cpm=rng.randrange(2), psbi=rng.randrange(4), trb=rng.randrange(8), dbq=rng.randrange(4),
                pei=[rng.randrange(256) for _ in range(rng.choice([0, 0, 1, 2]))])


def rand_sor(rng):
    sc = rng.randrange(8)
    return sor(ver=rng.randrange(32), tr=rng.randrange(256), sc=sc,
               w=rng.randrange(256) if sc == 0 else rng.randrange(65536), h=rng.randrange(256) if sc == 0 else rng.randrange(65536),
               type=rng.randrange(4), db=rng.randrange(2), q=rng.randrange(32),
               pei=[rng.randrange(256) for _ in range(rng.choice([0, 0, 1, 2, 3]))])


def cmd(rng, hdr, scal=False, prevopts=None, prevfmt=2):
    c = {"op": "header", "sor": hdr["k"] == "sor", "scal": scal, "hdr": hdr, "tail": [rng.randrange(256) for _ in range(4)]}
    if prevopts is not None:
        c["prevopts"] = prevopts
        # the previous header may itself have been sent without OPPTYPE (a chain of UFEP = 000 headers): the modes in
        # force are still the ones it reports
        c["prev"] = {"optnames": prevopts, "fmt": prevfmt, "w": 16, "h": 16, "plus": True, "opp": prevfmt != -1 and rng.random() < 0.5}
        # ... or a baseline header (no PLUSPTYPE at all): PTYPE bits 10-12 are the same modes as OPPTYPE bits 4-6 and are
        # inherited in the same way by a following UFEP = 000 header (seeded change C06-7A)
        if prevfmt in (1, 2, 3) and set(prevopts) <= set(OPP[:3]) and rng.random() < 0.6:
            c["prev"].update(plus=False, opp=False)
    return c


def sweeps(rng, thorough):
    """per-field exhaustive sweeps, the other fields at two base settings"""
    out = []
    # ---- Sorenson
    for b in (dict(), dict(ver=1, tr=200, type=1, db=1, q=31, pei=[7])):
        for v in range(32):
            out.append(cmd(rng, sor(**{**b, "ver": v})))
        for v in range(256):
            out.append(cmd(rng, sor(**{**b, "tr": v})))
        for v in range(8):
            out.append(cmd(rng, sor(**{**b, "sc": v})))
        for v in range(256):
            for o in (1, 16, 255):
                out.append(cmd(rng, sor(**{**b, "sc": 0, "w": v, "h": o})))
                out.append(cmd(rng, sor(**{**b, "sc": 0, "w": o, "h": v})))
        vals16 = range(65536) if thorough else sorted(set(list(range(0, 65536, 129)) + [0, 1, 255, 256, 257, 4095, 32767, 32768, 65535]))
        for v in vals16:
            out.append(cmd(rng, sor(**{**b, "sc": 1, "w": v, "h": 288})))
            out.append(cmd(rng, sor(**{**b, "sc": 1, "w": 352, "h": v})))
        for v in range(4):
            for d in range(2):
                out.append(cmd(rng, sor(**{**b, "type": v, "db": d})))
        for v in range(32):
            out.append(cmd(rng, sor(**{**b, "q": v})))
        for n in range(4):
            out.append(cmd(rng, sor(**{**b, "pei": [rng.randrange(256) for _ in range(n)]})))
    # ---- baseline PTYPE: 32 low-bit patterns x 6 formats x 8 high flags
    for low in range(32):
        for fmt in range(1, 7):
            for high in range(8):
                out.append(cmd(rng, base(ptype=low >> 4, umv=(low >> 3) & 1, sac=(low >> 2) & 1, ap=(low >> 1) & 1, pb=low & 1, fmt=fmt,
                                         split=high >> 2, doc=(high >> 1) & 1, freeze=high & 1, tr=rng.randrange(256), q=rng.randrange(32),
                                         trb=rng.randrange(8), dbq=rng.randrange(4))))
    for cpm in range(2):
        for psbi in range(4):
            for pb in range(2):
                out.append(cmd(rng, base(cpm=cpm, psbi=psbi, pb=pb, trb=rng.randrange(8), dbq=rng.randrange(4))))
    for trb in range(8):
        for dbq in range(4):
            out.append(cmd(rng, base(pb=1, trb=trb, dbq=dbq)))
    # ---- PLUSPTYPE
    for b in (dict(), dict(tr=99, split=1, mtype=1, q=31, pei=[1, 2], cpm=1, psbi=2)):
        for bits in range(1024):           # all OPPTYPE mode patterns
            fl = [(bits >> (9 - i)) & 1 for i in range(10)]
            out.append(cmd(rng, plus(**{**b, "oflags": fl, "uui": rng.randrange(2), "sss": [rng.randrange(2), rng.randrange(2)],
                                        "rpsmf": rng.randrange(8), "trpi": rng.randrange(2), "trp": rng.randrange(1024)})))
        for mt in range(8):
            for mf in range(4):
                for pcf in range(2):
                    out.append(cmd(rng, plus(**{**b, "mtype": mt, "mflags": [0, mf >> 1, mf & 1], "pcf": pcf, "cpcfc": rng.randrange(256),
                                                "trb": rng.randrange(32 if pcf else 8), "dbq": rng.randrange(4)})))
        for ofmt in range(8):
            out.append(cmd(rng, plus(**{**b, "ofmt": ofmt})))
        if thorough:
            pairs = [(pwi, phi) for pwi in range(512) for phi in range(1, 290)]
        else:
            pairs = [(pwi, phi) for pwi in (0, 1, 43, 87, 175, 255, 256, 511) for phi in range(1, 290)] + \
                    [(pwi, phi) for pwi in range(512) for phi in (1, 2, 36, 72, 255, 256, 288, 511)]
        for (pwi, phi) in pairs:
            out.append(cmd(rng, plus(**{**b, "ofmt": 6, "pwi": pwi, "phi": phi, "par": rng.choice([1, 2, 3, 4, 5])})))
        for par in range(16):
            out.append(cmd(rng, plus(**{**b, "ofmt": 6, "par": par, "parw": rng.randrange(1, 256), "parh": rng.randrange(1, 256)})))
        for pw in (1, 2, 255):
            for ph in (1, 128, 255):
                out.append(cmd(rng, plus(**{**b, "ofmt": 6, "par": 15, "parw": pw, "parh": ph})))
        for c in range(256):
            for etr in range(4):
                out.append(cmd(rng, plus(**{**b, "pcf": 1, "cpcfc": c, "etr": etr, "tr": rng.randrange(256)})))
        umv = [1] + [0] * 9
        for uui in range(2):
            out.append(cmd(rng, plus(**{**b, "oflags": umv, "uui": uui})))
        ss = [0] * 5 + [1] + [0] * 4
        for s1 in range(2):
            for s2 in range(2):
                out.append(cmd(rng, plus(**{**b, "oflags": ss, "sss": [s1, s2]})))
        for cpm in range(2):
            for psbi in range(4):
                out.append(cmd(rng, plus(**{**b, "cpm": cpm, "psbi": psbi})))
        for el in range(16):
            for rl in range(16):
                out.append(cmd(rng, plus(**{**b, "elnum": el, "rlnum": rl}), scal=True))
            out.append(cmd(rng, plus(**{**b, "ufep": 0, "elnum": el}), scal=True, prevopts=[], prevfmt=-1))
        rps = [0] * 6 + [1] + [0] * 3
        for v in range(8):
            out.append(cmd(rng, plus(**{**b, "oflags": rps, "rpsmf": v})))
        for trp in (range(1024) if thorough else list(range(0, 1024, 37)) + [1, 511, 512, 1023]):
            out.append(cmd(rng, plus(**{**b, "oflags": rps, "trpi": 1, "trp": trp})))
        out.append(cmd(rng, plus(**{**b, "oflags": rps, "trpi": 0})))
        for q in range(32):
            out.append(cmd(rng, plus(**{**b, "q": q})))
        for tr in range(256):
            out.append(cmd(rng, plus(**{**b, "tr": tr})))
        for n in range(4):
            out.append(cmd(rng, plus(**{**b, "pei": [rng.randrange(256) for _ in range(n)]})))
        # improved PB frames: TRB 3 bits without / 5 bits with custom clock
        for trb in range(32):
            for dbq in range(4):
                out.append(cmd(rng, plus(**{**b, "mtype": 2, "pcf": 1 if trb > 7 else rng.randrange(2), "trb": trb, "dbq": dbq,
                                            "cpcfc": rng.randrange(256)})))
    # ---- malformed headers: one wrong marker each
    for bad in ("ptype-bit1", "ptype-bit2"):
        out.append(cmd(rng, base(bad=bad)))
        out.append(cmd(rng, plus(bad=bad)))
    out.append(cmd(rng, base(fmt=0)))
    for ufep in range(2, 8):
        out.append(cmd(rng, plus(ufep=ufep)))
    for bad in ("opptype-end", "mpptype-end"):
        out.append(cmd(rng, plus(bad=bad)))
    out.append(cmd(rng, plus(ufep=0, bad="mpptype-end"), prevopts=[], prevfmt=-1))
    for bad in ("cpfmt-marker", "par-0000"):
        out.append(cmd(rng, plus(ofmt=6, bad=bad)))
    out.append(cmd(rng, plus(ofmt=6, par=15, bad="epar-zero")))
    out.append(cmd(rng, plus(ofmt=6, par=15, parw=3, parh=0)))
    out.append(cmd(rng, plus(oflags=[1] + [0] * 9, bad="uui-00")))
    out.append(cmd(rng, plus(oflags=[0] * 6 + [1] + [0] * 3, bad="bci-00")))
    return out


def inheritance(rng, n):
    """UFEP = 000 headers after a previous header with arbitrary OPPTYPE modes: the modes must be inherited"""
    out = []
    for i in range(n):
        prev = [o for o in OPP if rng.random() < 0.4]
        if i % 3 == 0:
            prev = [o for o in prev if o in OPP[:3]] or [OPP[i // 3 % 3]]   # what a baseline header can carry
        h = rand_plus(rng, ufep=0)
        # as in a real stream the previous header carried a format (i % 4 != 0); with i % 4 == 0 it did not
        out.append(cmd(rng, h, scal=rng.random() < 0.3, prevopts=prev, prevfmt=(rng.choice([1, 2, 3, 6]) if i % 4 else -1)))
    return out


def randoms(rng, n):
    out = []
    for i in range(n):
        r = rng.random()
        if r < 0.3:
            out.append(cmd(rng, rand_sor(rng)))
        elif r < 0.45:
            out.append(cmd(rng, rand_base(rng)))
        else:
            out.append(cmd(rng, rand_plus(rng, ufep=1), scal=rng.random() < 0.3))
    return out
