"""Operation sequences for the bit reader (C14): conversion of TLC behaviours and seeded random ones."""
import random

TBL_A = [([1], 10), ([0, 1], 20), ([0, 0, 1], 30), ([0, 0, 0, 1], 40), ([0, 0, 0, 0], 50)]
TBL_B = [([1, 1], 1), ([1, 0], 2), ([0, 1, 1], 3), ([0, 1, 0], -1), ([0, 0, 1], 4), ([0, 0, 0, 1], 5),
         ([0, 0, 0, 0, 1], 6), ([0, 0, 0, 0, 0, 1], 7), ([0, 0, 0, 0, 0, 0], -1)]


def trie(codes):
    """[(bits, value)] -> [["F", zero, one] | ["E", value]] with slot 0 = root."""
    ent = [None]

    def build(slot, items, depth):
        if len(items) == 1 and len(items[0][0]) == depth:
            ent[slot] = ["E", items[0][1]]
            return
        z = [it for it in items if it[0][depth] == 0]
        o = [it for it in items if it[0][depth] == 1]
        zi = len(ent); ent.append(None)
        oi = len(ent); ent.append(None)
        ent[slot] = ["F", zi, oi]
        build(zi, z, depth + 1)
        build(oi, o, depth + 1)
    build(0, codes, 0)
    return ent


def cmd(src, avail, ops, tbl=TBL_A):
    return {"op": "reader", "src": src, "avail": avail, "tbl": [[b, v] for b, v in tbl], "entries": trie(tbl),
            "ops": ops}


def from_tlc(gen):
    """gen = {"src":[..],"availEnd":n,"ops":[...]} printed by MCBitReader!Export."""
    ops, appended = [], 0
    for op in gen["ops"]:
        k = op[0]
        if k == "begin":
            ops.append(["begin", op[1], "v"])
        elif k == "vlc-abort":
            ops.append(["vlc"])
        elif k == "append":
            appended += op[1]
            ops.append(op)
        else:
            ops.append(op)
    # close transactions left open at the end of the behaviour
    depth = 0
    for op in ops:
        if op[0] == "begin":
            depth += 1
        elif op[0] == "end":
            depth -= 1
    # a "vlc-abort" already popped its transaction in the model: in the driver the matching
    # "end" must exist, so rebuild nesting explicitly
    out, stack = [], []
    for op in gen["ops"]:
        k = op[0]
        if k == "begin":
            out.append(["begin", op[1], "v"]); stack.append(op[1])
        elif k == "end":
            out.append(["end", op[1]]); stack.pop()
        elif k == "vlc-abort":
            out.append(["vlc"]); out.append(["end", "err"]); stack.pop()
        else:
            out.append(op)
    while stack:
        kd = stack.pop()
        out.append(["end", "ok"])
    return cmd(gen["src"], gen["availEnd"] - appended, out)


def random_seq(rng, nops, maxbytes):
    n = rng.randrange(0, maxbytes + 1)
    style = rng.randrange(4)
    if style == 0:
        src = [rng.randrange(256) for _ in range(n)]
    elif style == 1:      # zero-rich: start codes and near misses
        src = [rng.choice([0, 0, 0, 0, 1, 2, 128, 64, 255]) for _ in range(n)]
    elif style == 2:
        src = [rng.choice([0, 255, 0xA5]) for _ in range(n)]
    else:
        src = [rng.choice([0, 0, 128]) if i % 3 else rng.randrange(256) for i in range(n)]
    avail = n if rng.random() < 0.6 else rng.randrange(0, n + 1)
    tbl = rng.choice([TBL_A, TBL_B])
    ops, stack = [], []      # stack of modes
    widths = [0, 1, 2, 3, 4, 5, 7, 8, 9, 12, 15, 16, 17, 22, 24, 25, 31, 32, 33]
    left = n - avail
    for _ in range(nops):
        r = rng.random()
        in_v = bool(stack) and all(True for _ in stack) and stack[-1] in ("v", "a")
        if r < 0.18:
            ty = rng.choice(["u8", "u16", "u32", "u64", "i16", "i32"])
            ops.append(["read", rng.choice([w for w in widths if w <= 33]), ty])
        elif r < 0.28:
            ty = rng.choice(["u8", "u16", "u32", "u64"])
            ops.append(["peek", rng.choice(widths), ty])
        elif r < 0.40:
            ty = rng.choice(["u8", "u16", "u32", "i16", "i32"])
            ops.append([rng.choice(["reads", "peeks"]), rng.choice([w for w in widths if w <= 32]), ty])
        elif r < 0.48:
            ops.append(["skip", rng.choice(widths + [40, 64])])
        elif r < 0.52:
            ops.append(["u8"])
        elif r < 0.62:
            if in_v or not stack:
                ops.append([rng.choice(["vlc", "vlc", "umv"])])
            else:
                ops.append(["u8"])
        elif r < 0.72:
            ops.append(["sc", rng.random() < 0.3])
        elif r < 0.82 and len(stack) < 4:
            m = rng.choice(["v", "a", "v", "n"])
            ops.append(["begin", rng.choice(["txn", "union", "look"]), m]); stack.append(m)
        elif r < 0.92 and stack:
            kinds = [o for o in ops if o[0] == "begin"]
            ops.append(["end", rng.choice(["ok", "err", "ok", "none"])]); stack.pop()
        elif r < 0.95 and not stack:
            ops.append(["commit"])
        elif left > 0:
            k = rng.randrange(1, left + 1); left -= k
            ops.append(["append", k])
        else:
            ops.append(["peek", 8, "u8"])
    while stack:
        stack.pop(); ops.append(["end", rng.choice(["ok", "err"])])
    # outcome "none" is only meaningful for unions / look-aheads: fix up
    st = []
    for o in ops:
        if o[0] == "begin":
            st.append(o[1])
        elif o[0] == "end":
            k = st.pop()
            if o[1] == "none" and k == "txn":
                o[1] = "err"
    # a transaction in mode "n" must not contain VLC reads (position undefined after failure)
    st = []
    for o in ops:
        if o[0] == "begin":
            st.append(o)
        elif o[0] == "end":
            st.pop()
        elif o[0] in ("vlc", "umv"):
            for b in st:
                if b[2] == "n":
                    b[2] = "v"
    c = cmd(src, avail, ops, tbl)
    # how the source hands out bytes must not matter: at most k bytes per read call (0 = no limit)
    c["maxread"] = rng.choice([0, 0, 1, 2, 3, 5])
    return c
