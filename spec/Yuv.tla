-------------------------------- MODULE Yuv --------------------------------
(***************************************************************************)
(* BT.601 studio-range YCbCr -> full-range RGB in 16.16 fixed point, and   *)
(* the 4:2:0 pairing of luma and chroma samples (properties C07, C08).     *)
(* Written from the statement of the properties: the coefficients are      *)
(* DERIVED here from 255/219, 255/224, 1.402, 1.772, 0.299, 0.114, 0.587,  *)
(* not copied from the implementation.                                     *)
(***************************************************************************)
EXTENDS Util

(* 16.16 coefficients, each rounded to nearest *)
CY  == RoundDiv(255 * 65536, 219)                          \* 255/219
CRR == RoundMulDiv(255 * 1402, 2048, 7000)                 \* 255/224 * 1.402      (65536/224 = 2048/7)
CBB == RoundMulDiv(255 * 1772, 2048, 7000)                 \* 255/224 * 1.772
CRG == RoundMulDiv(255 * 1402 * 299, 256, 875 * 587)       \* 255/224 * 1.402 * 0.299/0.587
CBG == RoundMulDiv(255 * 1772 * 114, 256, 875 * 587)       \* 255/224 * 1.772 * 0.114/0.587

Chan(v) == Clamp(Asr(v + 32768, 16), 0, 255)               \* round to nearest, clamp
R(y, cb, cr) == Chan(CY * (y - 16) + CRR * (cr - 128))
G(y, cb, cr) == Chan(CY * (y - 16) - CRG * (cr - 128) - CBG * (cb - 128))
B(y, cb, cr) == Chan(CY * (y - 16) + CBB * (cb - 128))

(* One RGBA pixel packed into a signed 32-bit integer (TLC's range):       *)
(* (R-128)*2^24 + G*2^16 + B*2^8 + A.                                      *)
Pack(r, g, b, a) == (r - 128) * 16777216 + g * 65536 + b * 256 + a
Pixel(y, cb, cr) == Pack(R(y, cb, cr), G(y, cb, cr), B(y, cb, cr), 255)

(***************************************************************************)
(* 4:2:0 pairing.  A picture of w x h luma samples has chroma planes of     *)
(* ceil(w/2) x ceil(h/2) samples with row length ceil(w/2); pixel (x, y)    *)
(* (0-based) uses chroma sample (x div 2, y div 2).  Planes are 1-based     *)
(* TLA+ sequences in row-major order.                                       *)
(***************************************************************************)
ChromaW(w) == (w + 1) \div 2
ChromaH(h) == (h + 1) \div 2
PlanesOk(w, h, Y, Cb, Cr) ==
    /\ Len(Y) = w * h
    /\ Len(Cb) = ChromaW(w) * ChromaH(h)
    /\ Len(Cr) = ChromaW(w) * ChromaH(h)
PixelAt(w, Y, Cb, Cr, x, y) ==
    LET c == (y \div 2) * ChromaW(w) + (x \div 2) + 1
    IN  Pixel(Y[y * w + x + 1], Cb[c], Cr[c])
(* the whole converted picture, one packed pixel per luma sample, row-major *)
Convert(w, h, Y, Cb, Cr) == [k \in 1..(w * h) |-> PixelAt(w, Y, Cb, Cr, (k - 1) % w, (k - 1) \div w)]

(***************************************************************************)
(* Lemmas checked by TLC (MCYuv): "within 1 of the real-valued formula",    *)
(* monotonicity.  Real coefficients are bracketed at resolution 2^-20:      *)
(* Lo <= c * 2^20 <= Lo + 1.                                                *)
(***************************************************************************)
S20 == 1048576
YLo  == (255 * S20) \div 219
RRLo == FloorMulDiv(255 * 1402, 32768, 7000)               \* 2^20/224 = 32768/7
BBLo == FloorMulDiv(255 * 1772, 32768, 7000)
RGLo == FloorMulDiv(255 * 1402 * 299, 4096, 875 * 587)     \* 32768/7000 = 4096/875
BGLo == FloorMulDiv(255 * 1772 * 114, 4096, 875 * 587)
(* interval [lo, hi] (scaled by 2^20) containing c*x for c in [cl, cl+1]/2^20 *)
TermLo(cl, x) == IF x >= 0 THEN cl * x ELSE (cl + 1) * x
TermHi(cl, x) == IF x >= 0 THEN (cl + 1) * x ELSE cl * x
ClampS(v) == Clamp(v, 0, 255 * S20)
(* |fix - clamp(real)| <= 1, given real in [lo, hi]/2^20 *)
Within1(fix, lo, hi) == /\ fix * S20 - ClampS(hi) <= S20
                        /\ ClampS(lo) - fix * S20 <= S20
RWithin1(y, cr) == Within1(R(y, 0, cr), TermLo(YLo, y - 16) + TermLo(RRLo, cr - 128),
                                         TermHi(YLo, y - 16) + TermHi(RRLo, cr - 128))
BWithin1(y, cb) == Within1(B(y, cb, 0), TermLo(YLo, y - 16) + TermLo(BBLo, cb - 128),
                                         TermHi(YLo, y - 16) + TermHi(BBLo, cb - 128))
GWithin1(y, cb, cr) == Within1(G(y, cb, cr),
        TermLo(YLo, y - 16) - TermHi(RGLo, cr - 128) - TermHi(BGLo, cb - 128),
        TermHi(YLo, y - 16) - TermLo(RGLo, cr - 128) - TermLo(BGLo, cb - 128))
=============================================================================
