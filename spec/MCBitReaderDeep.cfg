SPECIFICATION Spec
CONSTANTS
  Alphabet = {0, 1, 128, 165}
  MaxBytes = 3
  WidthsN = {0, 1, 7, 8, 9, 17}
  MaxDepth = 2
  MaxOps = 4
INVARIANT Inv
PROPERTY RollbackRestores
VIEW view
CHECK_DEADLOCK FALSE
