---------------------------- MODULE TraceDeblock ----------------------------
(* Trace validation for deblock::deblock (C09, C16, part of C13).  Each     *)
(* recorded call is replayed as the three steps of Annex J: filter across   *)
(* the horizontal block edges, filter across the vertical block edges of    *)
(* the result, compare.  The intermediate images are state variables, so    *)
(* every stage is evaluated exactly once (TLC does not cache LET values     *)
(* inside parametrised operators).                                          *)
EXTENDS Deblock, Json, IOUtils, FiniteSets, SequencesExt
Rec == ndJsonDeserialize(IOEnv.TRACE)
VARIABLES l,        \* trace line being replayed
          phase,    \* 0 = start of line, 1 = horizontal edges done, 2 = vertical edges done
          img       \* the specification's image after the last completed phase
vars == <<l, phase, img>>
E == Rec[l]
W == E.w
N == Len(E.data)
H == N \div W
Diag(cls, what, sig, detail) ==
    PrintT("DIAG " \o ToJson([l |-> l, cls |-> cls, what |-> what, sig |-> sig, detail |-> detail]))
MinOf(S) == CHOOSE m \in S : \A o \in S : m <= o
PreOk == W >= 1 /\ N % W = 0 /\ E.s \in 1..12 /\ \A k \in 1..N : E.data[k] \in 0..255

Skip == l' = l + 1 /\ phase' = 0 /\ img' = <<>>
Table ==
    /\ phase = 0 /\ E.op = "strength_table"
    /\ IF E.ret # "ok" \/ Len(E.table) # 32 THEN Diag("IMPL", "strength-table-shape", "strength-table", E.ret)
       ELSE LET bad == {q \in 1..31 : E.table[q + 1] # TableJ2[q]} IN
            IF bad = {} THEN TRUE
            ELSE Diag("IMPL", "strength-table", "strength-table",
                      [quant |-> MinOf(bad), got |-> E.table[MinOf(bad) + 1], expected |-> TableJ2[MinOf(bad)]])
    /\ Skip
Start ==
    /\ phase = 0 /\ E.op = "deblock"
    /\ IF ~PreOk THEN Diag("HARNESS", "deblock-precondition", "harness", [w |-> W, n |-> N, s |-> E.s]) /\ Skip
       ELSE IF E.ret # "ok"
       THEN /\ Diag("IMPL", "deblock-outcome",
                    IF H < 2 THEN "deblock-no-return-rows-lt-2" ELSE "deblock-no-return",
                    [ret |-> E.ret, w |-> W, h |-> H, s |-> E.s])
            /\ Skip
       ELSE /\ img' = HPass(E.data, W, H, E.s)          \* Annex J: horizontal edges first
            /\ phase' = 1 /\ l' = l
Vertical ==
    /\ phase = 1
    /\ img' = VPass(img, W, H, E.s)
    /\ phase' = 2 /\ l' = l
Compare ==
    /\ phase = 2
    /\ IF Len(E.out) # N THEN Diag("IMPL", "deblock-length", "deblock-length", [w |-> W, h |-> H, got |-> Len(E.out)])
       ELSE IF ~E.input_unchanged THEN Diag("IMPL", "deblock-input-modified", "deblock-input-modified", [w |-> W, h |-> H])
       ELSE LET k == SelectInSeq([j \in 1..N |-> E.out[j] # img[j]], LAMBDA b : b) IN
            IF k = 0 THEN TRUE ELSE
            LET x == (k - 1) % W
                y == (k - 1) \div W
            IN Diag("IMPL", "deblock-value",
                    IF Untouched(x, y, W, H) THEN "deblock-touches-non-edge-sample" ELSE "deblock-edge-value",
                    [w |-> W, h |-> H, s |-> E.s, x |-> x, y |-> y, got |-> E.out[k], expected |-> img[k],
                     A |-> IF QuadOf(y, H)[1] >= 0 THEN <<At(E.data, W, x, QuadOf(y, H)[1] - 2), At(E.data, W, x, QuadOf(y, H)[1] - 1),
                                                          At(E.data, W, x, QuadOf(y, H)[1]), At(E.data, W, x, QuadOf(y, H)[1] + 1)>> ELSE <<>>,
                     count |-> Cardinality({j \in 1..N : E.out[j] # img[j]})])
    /\ Skip
Unknown == phase = 0 /\ E.op \notin {"deblock", "strength_table"} /\ Diag("HARNESS", "unknown-op", "harness", E.op) /\ Skip

Init == l = 1 /\ phase = 0 /\ img = <<>>
Next == l <= Len(Rec) /\ (Table \/ Start \/ Vertical \/ Compare \/ Unknown)
Spec == Init /\ [][Next]_vars
Consumed == PrintT("CONSUMED " \o ToString(l - 1) \o " OF " \o ToString(Len(Rec)))
Done == l = Len(Rec) + 1 => Consumed
=============================================================================
