SPECIFICATION Spec
CONSTANTS
  TRs = {0, 1, 255}
  MaxLen = 6
  Design = "current"
  AllowCollision = TRUE
INVARIANT Inv
PROPERTY FailureIsNoOp
VIEW view
CHECK_DEADLOCK FALSE
