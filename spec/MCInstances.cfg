SPECIFICATION Spec
CONSTANTS
  N = 3
  Prog <- ProgDef
INVARIANT Inv
INVARIANT Export
PROPERTY Independence
CHECK_DEADLOCK FALSE
