---------------------------- MODULE MCBitReader ----------------------------
(***************************************************************************)
(* The bit reader as a state machine over small sources, model-checked by   *)
(* TLC (C14): any interleaving of peeks, reads, signed reads, skips, VLC    *)
(* reads, start-code recognition, nested transactions / look-aheads,        *)
(* buffer commits and data arriving later.                                  *)
(* The same module exports behaviours (variable hist) for replay into the   *)
(* real H263Reader: configuration MCBitReaderGen / simulation mode.         *)
(***************************************************************************)
EXTENDS BitReader, Json, IOUtils

CONSTANTS Alphabet,      \* byte values sources are built from
          MaxBytes,      \* maximal source length
          WidthsN,       \* bit counts n tried by fixed-width operations
          MaxDepth,      \* maximal nesting of transactions
          MaxOps         \* bound on the number of operations (history length)

Types == {"u8", "u16", "u32"}
WidthOf(ty) == CASE ty = "u8" -> 8 [] ty = "u16" -> 16 [] ty = "u32" -> 32 [] ty = "i16" -> 16 [] ty = "i32" -> 32 [] ty = "u64" -> 64
(* a small complete prefix code: 1 / 01 / 001 / 0001 / 0000 *)
Tbl == << <<<<1>>, 10>>, <<<<0, 1>>, 20>>, <<<<0, 0, 1>>, 30>>, <<<<0, 0, 0, 1>>, 40>>, <<<<0, 0, 0, 0>>, 50>> >>

VARIABLES src, avail, pos, stack, base,
          delivered,     \* history: the bits consumed (returned or skipped) and not rolled back
          last,          \* observation: <<operation, result, position before>>
          hist           \* history of operations (for export); hidden by VIEW in exhaustive runs
vars == <<src, avail, pos, stack, base, delivered, last, hist>>
view == <<src, avail, pos, stack, base, delivered, last, Len(hist)>>

Sources == UNION {[1..n -> Alphabet] : n \in 0..MaxBytes}
Init == /\ src \in Sources
        /\ avail \in 0..Len(src)
        /\ pos = 0 /\ stack = <<>> /\ base = 0 /\ delivered = <<>>
        /\ last = <<<<"init">>, Ok(0), 0>> /\ hist = <<>>

Bits(from, to) == [j \in 1..(to - from) |-> SrcBit(src, from + j)]
Step(op, o) ==      \* apply the outcome o of operation op
    /\ last' = <<op, o.res, pos>>
    /\ hist' = Append(hist, op)
    /\ pos' = o.pos
    /\ delivered' = IF o.pos >= pos THEN delivered \o Bits(pos, o.pos) ELSE SubSeq(delivered, 1, o.pos)
    /\ UNCHANGED <<src, avail, base>>

DoPeek == \E n \in WidthsN : \E ty \in Types :
    Step(<<"peek", n, ty>>, Peek(src, avail, pos, n, WidthOf(ty))) /\ UNCHANGED stack
DoRead == \E n \in WidthsN : \E ty \in Types :
    Step(<<"read", n, ty>>, Read(src, avail, pos, n, WidthOf(ty))) /\ UNCHANGED stack
DoReadSigned == \E n \in WidthsN : \E ty \in {"i16", "i32"} :
    Step(<<"reads", n, ty>>, ReadSigned(src, avail, pos, n, WidthOf(ty))) /\ UNCHANGED stack
DoPeekSigned == \E n \in WidthsN : \E ty \in {"i16", "i32"} :
    Step(<<"peeks", n, ty>>, PeekSigned(src, avail, pos, n, WidthOf(ty))) /\ UNCHANGED stack
DoSkip == \E n \in WidthsN : Step(<<"skip", n>>, Skip(src, avail, pos, n)) /\ UNCHANGED stack
DoVlc ==    \* a failed VLC read leaves the position undefined: only inside a transaction that then fails
    LET o == Vlc(src, avail, pos, Tbl) IN
    /\ o.res.r = "ok" \/ stack # <<>>
    /\ IF o.res.r = "ok" THEN Step(<<"vlc">>, o) /\ UNCHANGED stack
       ELSE \* the enclosing transaction is abandoned: rollback to its checkpoint
            /\ Step(<<"vlc-abort">>, Out(o.res, stack[Len(stack)][2]))
            /\ stack' = SubSeq(stack, 1, Len(stack) - 1)
DoStartCode == \E e \in BOOLEAN : \E r \in StartCodeAllowed(src, avail, pos, e) :
    Step(<<"sc", e>>, Out(r, pos)) /\ UNCHANGED stack
DoBegin == \E k \in {"txn", "union", "look"} :
    /\ Len(stack) < MaxDepth
    /\ stack' = Append(stack, <<k, pos>>)
    /\ last' = <<<<"begin", k>>, Ok(0), pos>> /\ hist' = Append(hist, <<"begin", k>>)
    /\ UNCHANGED <<src, avail, pos, base, delivered>>
DoEnd == \E outcome \in {"ok", "err", "none"} :
    /\ stack # <<>>
    /\ outcome = "none" => stack[Len(stack)][1] = "union"
    /\ LET top == stack[Len(stack)] IN
       /\ Step(<<"end", outcome>>, Out(Ok(0), EndPos(top[1], outcome, top[2], pos)))
       /\ stack' = SubSeq(stack, 1, Len(stack) - 1)
DoCommit ==     \* precondition (documented): no checkpoint is outstanding
    /\ stack = <<>>
    /\ base' = pos \div 8
    /\ last' = <<<<"commit">>, Ok(0), pos>> /\ hist' = Append(hist, <<"commit">>)
    /\ UNCHANGED <<src, avail, pos, stack, delivered>>
DoAppend == \E k \in 1..MaxBytes :
    /\ avail + k <= Len(src)
    /\ avail' = avail + k
    /\ last' = <<<<"append", k>>, Ok(0), pos>> /\ hist' = Append(hist, <<"append", k>>)
    /\ UNCHANGED <<src, pos, stack, base, delivered>>

Next == /\ Len(hist) < MaxOps
        /\ \/ DoPeek \/ DoRead \/ DoReadSigned \/ DoPeekSigned \/ DoSkip \/ DoVlc \/ DoStartCode
           \/ DoBegin \/ DoEnd \/ DoCommit \/ DoAppend
Spec == Init /\ [][Next]_vars

(* ------------------------------- properties ------------------------------- *)
InOrderOnce ==      \* each bit delivered once, in order, MSB first
    /\ Len(delivered) = pos
    /\ \A j \in 1..pos : delivered[j] = SrcBit(src, j)
BufferAccounting ==
    /\ 8 * base <= pos /\ pos <= 8 * avail /\ avail <= Len(src)
    /\ \A i \in 1..Len(stack) : 8 * base <= stack[i][2] /\ stack[i][2] <= pos
    /\ \A i \in 1..(Len(stack) - 1) : stack[i][2] <= stack[i + 1][2]
OpName == last[1][1]
ResultsAreFaithful ==
    LET op == last[1]  res == last[2]  p0 == last[3] IN
    /\ (OpName \in {"peek", "read"} /\ res.r = "ok") =>
          \* the value is the big-endian number formed by the next n source bits
          /\ res.v[2] = (IF op[2] = 0 THEN 0 ELSE Val(src, p0 + Max2(0, op[2] - 16), Min2(op[2], 16)))
          /\ res.v[1] = (IF op[2] <= 16 THEN 0 ELSE Val(src, p0, op[2] - 16))
    /\ (OpName \in {"peeks", "reads"} /\ res.r = "ok" /\ op[2] > 0 /\ op[2] <= 30) =>
          \* two's complement: in range, congruent to the unsigned value, sign = first bit
          /\ res.v >= -Pow2(op[2] - 1) /\ res.v < Pow2(op[2] - 1)
          /\ (res.v - Val(src, p0, op[2])) % Pow2(op[2]) = 0
          /\ (res.v < 0) <=> (SrcBit(src, p0 + 1) = 1)
    /\ (OpName \in {"peek", "peeks", "sc", "begin", "commit", "append"}) => pos = p0         \* never consume
    /\ (res.r \in {"eof", "badwidth"} /\ OpName \in {"read", "reads", "skip"}) => pos = p0   \* failed reads consume nothing
    /\ (OpName \in {"read", "reads", "skip"} /\ res.r = "ok") => pos = p0 + op[2]
    /\ (OpName \in {"read", "reads", "skip", "peek", "peeks"} /\ res.r = "eof") => Remaining(avail, p0) < op[2]
    /\ (OpName = "sc" /\ res.r = "ok") =>
          /\ IsStartCodeAt(src, avail, p0 + res.v)
          /\ \A j \in 0..(res.v - 1) : ~IsStartCodeAt(src, avail, p0 + j)
          /\ (~op[2]) => res.v <= 8
    /\ (OpName = "sc" /\ res.r # "ok" /\ ~op[2]) =>
          \A j \in 0..Realign(p0) : ~IsStartCodeAt(src, avail, p0 + j)      \* a start code within re-alignment reach is never missed
StartCodeTotal == \A e \in BOOLEAN : StartCodeAllowed(src, avail, pos, e) # {}
TableIsACode == PrefixFree(Tbl) /\ Complete(Tbl)
Inv == InOrderOnce /\ BufferAccounting /\ ResultsAreFaithful /\ StartCodeTotal /\ TableIsACode

(* action property: a transaction that does not succeed, and every look-ahead, restores the position *)
RollbackRestores ==
    [][ (stack # <<>> /\ Len(stack') < Len(stack) /\ last'[1][1] \in {"end", "vlc-abort"}) =>
          LET top == stack[Len(stack)] IN
          (RollsBack(top[1], IF last'[1][1] = "end" THEN last'[1][2] ELSE "err") => pos' = top[2])
          /\ (~RollsBack(top[1], IF last'[1][1] = "end" THEN last'[1][2] ELSE "err") => pos' = pos) ]_vars

(* export one behaviour per maximal history (generation configs only) *)
Export == (Len(hist) = MaxOps) => PrintT("GEN " \o ToJson([src |-> src, availEnd |-> avail, ops |-> hist]))
=============================================================================
