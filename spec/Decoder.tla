------------------------------ MODULE Decoder ------------------------------
(***************************************************************************)
(* Reference management of the decoder (C04, C05, C17), in two layers.     *)
(*                                                                         *)
(* Requirement layer - what a user relies on: the most recent picture and  *)
(* the reference picture ARE pictures (rLast, rRef).                       *)
(*                                                                         *)
(* Implementation-shaped layer - what decoder/state.rs does, one action    *)
(* per critical section: last / ref are temporal references, pictures      *)
(* live in a store keyed by temporal reference, pruned to {last, ref}      *)
(* after every successful decode and by the explicit clean-up call.        *)
(* Design selects which tree is modelled:                                  *)
(*   "pinned"   the pinned tree: the reference is looked up under the key  *)
(*              of the LAST picture (DESIGN.md 6 #1) and disposable        *)
(*              pictures are stored under their temporal reference (#3)    *)
(*   "tr-store" lookup corrected, disposable pictures still in the store   *)
(*   "current"  the repaired tree: the last disposable picture is held     *)
(*              outside the store (fix commits in known_findings.txt)      *)
(*                                                                         *)
(* A picture is [id, kind, tr, from]: `from` = id of the picture it was    *)
(* predicted from (0 for intra pictures) - so "which reference was used"   *)
(* is part of the picture's identity, as it is of its pixels.              *)
(***************************************************************************)
EXTENDS Integers, Sequences, FiniteSets, TLC

CONSTANTS TRs,              \* temporal references pictures may carry
          MaxLen,           \* bound on the history length
          Design,           \* "pinned" | "tr-store" | "current", see above
          AllowCollision    \* BOOLEAN: may a disposable picture carry the reference's temporal reference?
LookupByLast == Design = "pinned"
DisposableInStore == Design \in {"pinned", "tr-store"}

None == [id |-> 0, kind |-> "-", tr |-> -1, from |-> 0]
VARIABLES rLast, rRef,              \* requirement layer
          last, ref, store, disp,   \* implementation-shaped layer: TRs (-1 = none), function from keys to pictures,
                                    \* the last picture if it was disposable (design "current")
          n,                        \* pictures decoded so far (next id - 1)
          hist,                     \* history of calls (exported for replay)
          lastOutcome               \* observation of the latest call: <<"ok"|"err"|"cleanup", picture produced by impl layer>>
vars == <<rLast, rRef, last, ref, store, disp, n, hist, lastOutcome>>

Keys == DOMAIN store
ImplRefPic == \* the picture the implementation predicts from
    IF ref = -1 THEN None
    ELSE LET k == IF LookupByLast THEN last ELSE ref IN
         IF k \in Keys THEN store[k] ELSE None
Prune(s, l, r) == [k \in {x \in DOMAIN s : x = l \/ x = r} |-> s[k]]

ImplLastPic == IF disp # None THEN disp ELSE IF last \in Keys THEN store[last] ELSE None
Init == /\ rLast = None /\ rRef = None /\ last = -1 /\ ref = -1 /\ store = <<>> /\ disp = None /\ n = 0 /\ hist = <<>>
        /\ lastOutcome = <<"init", None>>

(* a decode call on a valid picture of the given kind and temporal reference *)
Decode(kind, tr) ==
    /\ AllowCollision \/ ~(kind = "D" /\ tr = rRef.tr)
    /\ hist' = Append(hist, <<kind, tr>>)
    /\ IF kind # "I" /\ rRef = None
       THEN \* requirement: no reference -> rejected, nothing changes
            /\ lastOutcome' = <<IF ImplRefPic = None THEN "err" ELSE "ok-but-required-err", None>>
            /\ UNCHANGED <<rLast, rRef, last, ref, store, disp, n>>
       ELSE LET rp == [id |-> n + 1, kind |-> kind, tr |-> tr, from |-> IF kind = "I" THEN 0 ELSE rRef.id]
                ip == [id |-> n + 1, kind |-> kind, tr |-> tr, from |-> IF kind = "I" THEN 0 ELSE ImplRefPic.id]
            IN  /\ n' = n + 1
                /\ rLast' = rp /\ rRef' = (IF kind = "D" THEN rRef ELSE rp)
                /\ IF kind # "I" /\ ImplRefPic = None
                   THEN \* the implementation would reject a picture the requirement accepts
                        /\ lastOutcome' = <<"err-but-required-ok", None>> /\ UNCHANGED <<last, ref, store, disp>>
                   ELSE /\ last' = tr
                        /\ ref' = (IF kind = "D" THEN ref ELSE tr)       \* (I: ref := none, then := tr)
                        /\ IF kind = "D" /\ ~DisposableInStore
                           THEN disp' = ip /\ store' = Prune(store, tr, ref)
                           ELSE /\ disp' = None
                                /\ store' = Prune([k \in Keys \cup {tr} |-> IF k = tr THEN ip ELSE store[k]], tr,
                                                  IF kind = "D" THEN ref ELSE tr)
                        /\ lastOutcome' = <<"ok", ip>>
(* a call on data that is not a decodable picture *)
Reject ==
    /\ hist' = Append(hist, <<"R">>) /\ lastOutcome' = <<"err", None>>
    /\ UNCHANGED <<rLast, rRef, last, ref, store, disp, n>>
Cleanup ==
    /\ hist' = Append(hist, <<"C">>) /\ lastOutcome' = <<"cleanup", None>>
    /\ store' = Prune(store, last, ref)
    /\ UNCHANGED <<rLast, rRef, last, ref, disp, n>>

Next == /\ Len(hist) < MaxLen
        /\ \/ \E k \in {"I", "P", "D"} : \E t \in TRs : Decode(k, t)
           \/ Reject \/ Cleanup
Spec == Init /\ [][Next]_vars

(* ------------------------------- properties ------------------------------- *)
(* C04: the implementation's most recent picture and the picture it predicts  *)
(* from are the requirement's - for every assignment of temporal references.  *)
RefIsLastNonDisposable ==
    /\ (last = -1) <=> (rLast = None)
    /\ ImplLastPic = rLast
    /\ (ref = -1) <=> (rRef = None)
    /\ ImplRefPic = rRef
    /\ lastOutcome[1] \in {"init", "ok", "err", "cleanup"}
StoreIsPruned == Keys \subseteq {last, ref} /\ Cardinality(Keys) <= 2
(* C05 at this level: a rejected call and a clean-up change no abstract state *)
FailureIsNoOp ==
    [][ (lastOutcome'[1] \in {"err", "cleanup"}) =>
            (rLast' = rLast /\ rRef' = rRef /\ last' = last /\ ref' = ref /\ disp' = disp
             /\ (lastOutcome'[1] = "err" => store' = store)
             /\ (lastOutcome'[1] = "cleanup" => \A k \in {last, ref} \cap Keys : k \in DOMAIN store' /\ store'[k] = store[k])) ]_vars
(* disposable pictures never become or alter the reference *)
DisposableNeverReference == rRef.kind # "D" /\ (ref # -1 /\ (~AllowCollision \/ ~DisposableInStore) => store[ref].kind # "D")
Inv == RefIsLastNonDisposable /\ StoreIsPruned /\ DisposableNeverReference
=============================================================================
