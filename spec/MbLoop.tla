------------------------------- MODULE MbLoop -------------------------------
(***************************************************************************)
(* Why a decode call returns (C01, "never loops without consuming input"): *)
(* the macroblock loop of the decoder as a state machine over an abstract  *)
(* bit budget.  Every iteration either decodes a macroblock (consuming at  *)
(* least one bit and advancing the macroblock count), skips stuffing       *)
(* (consuming at least nine bits, count unchanged), or leaves the loop     *)
(* (end of data, an error, resynchronisation in standard mode, or - since  *)
(* fix 6d94087 - the picture's last macroblock).  Constant Bounded = FALSE *)
(* models the pinned tree, whose loop had no bound on the count.           *)
(* TLC checks: the measure <<macroblocks left, bits left>> decreases       *)
(* lexicographically at every iteration (action property), the loop ends   *)
(* (liveness under weak fairness), and with Bounded the count never        *)
(* exceeds the picture's macroblocks (so the level arrays are never        *)
(* indexed out of range - the rle.rs:90 panic of the pinned tree).         *)
(***************************************************************************)
EXTENDS Integers
CONSTANTS Total,        \* macroblocks of the picture
          Bits,         \* bits available in the reader
          Bounded       \* BOOLEAN
VARIABLES mb, left, pc  \* macroblocks decoded, bits left, "loop" | "done-ok" | "done-err"
vars == <<mb, left, pc>>
Init == mb = 0 /\ left \in 0..Bits /\ pc = "loop"
Guard == IF Bounded THEN mb < Total ELSE TRUE
Coded ==    \* a coded or not-coded macroblock: COD / MCBPC take at least one bit
    /\ pc = "loop" /\ Guard
    /\ \E c \in 1..left : left' = left - c
    /\ mb' = mb + 1 /\ pc' = "loop"
Stuffing == \* COD + MCBPC stuffing code: at least nine bits, no macroblock
    /\ pc = "loop" /\ Guard /\ left >= 9
    /\ \E c \in 9..left : left' = left - c
    /\ UNCHANGED <<mb, pc>>
EndOfData == \* the reader runs dry inside a macroblock header: the transaction rolls back, the picture ends
    /\ pc = "loop" /\ Guard
    /\ pc' = "done-ok" /\ UNCHANGED <<mb, left>>
Error ==    \* any other error (or end of data inside a block): the call fails, nothing is consumed
    /\ pc = "loop" /\ Guard
    /\ pc' = "done-err" /\ UNCHANGED <<mb, left>>
Full ==     \* all macroblocks decoded
    /\ pc = "loop" /\ ~Guard
    /\ pc' = "done-ok" /\ UNCHANGED <<mb, left>>
Next == Coded \/ Stuffing \/ EndOfData \/ Error \/ Full
Spec == Init /\ [][Next]_vars /\ WF_vars(Next)

MeasureDecreases ==
    [][ pc' = "loop" => (Total + Bits - mb' > Total + Bits - mb \/ left' < left) /\ left' <= left ]_vars
BitsNeverNegative == left >= 0
Returns == <>(pc # "loop")
NeverPastThePicture == Bounded => mb <= Total
PinnedStaysInPicture == mb <= Total       \* false for the pinned tree (Bounded = FALSE): TLC finds the extra macroblock
=============================================================================
