---------------------------- MODULE MCYuvPairing ----------------------------
(* Model-level sanity of the 4:2:0 pairing definition in Yuv.tla: for every *)
(* size the chroma index of every pixel lies inside the chroma plane, every *)
(* chroma sample is used by at least one and at most four pixels, and the   *)
(* converted picture has w*h pixels.  One state per size.                   *)
EXTENDS Yuv, FiniteSets
VARIABLES w, h
Init == w \in 1..24 /\ h \in 1..24
Next == UNCHANGED <<w, h>>
Spec == Init /\ [][Next]_<<w, h>>
CIdx(x, y) == (y \div 2) * ChromaW(w) + (x \div 2) + 1
Users(c) == {p \in (0..(w - 1)) \X (0..(h - 1)) : CIdx(p[1], p[2]) = c}
Inv == /\ \A x \in 0..(w - 1) : \A y \in 0..(h - 1) : CIdx(x, y) \in 1..(ChromaW(w) * ChromaH(h))
       /\ \A c \in 1..(ChromaW(w) * ChromaH(h)) : Cardinality(Users(c)) \in 1..4
       /\ 2 * ChromaW(w) \in {w, w + 1} /\ 2 * ChromaH(h) \in {h, h + 1}
=============================================================================
