---------------------------- MODULE DecoderInd ----------------------------
(* Typed restatement of Decoder.tla, design "current", for Apalache: an        *)
(* inductive invariant shows RefIsLastNonDisposable for histories of ANY       *)
(* length and ANY temporal references 0..1023 (not only the bounded TLC runs). *)
EXTENDS Integers, Apalache

VARIABLES
  \* @type: { id: Int, kind: Str, tr: Int, from: Int };
  rLast,
  \* @type: { id: Int, kind: Str, tr: Int, from: Int };
  rRef,
  \* @type: Int;
  last,
  \* @type: Int;
  ref,
  \* @type: Set({ id: Int, kind: Str, tr: Int, from: Int });
  store,
  \* @type: { id: Int, kind: Str, tr: Int, from: Int };
  disp,
  \* @type: Int;
  n

\* @type: { id: Int, kind: Str, tr: Int, from: Int };
None == [id |-> 0, kind |-> "-", tr |-> -1, from |-> 0]
TRs == 0..1023
Kinds == {"I", "P", "D"}

\* the store is a partial function from temporal references to pictures, kept as a set of pictures keyed by .tr
\* @type: Int => { id: Int, kind: Str, tr: Int, from: Int };
Lookup(k) == IF \E p \in store : p.tr = k THEN CHOOSE p \in store : p.tr = k ELSE None
ImplRefPic == IF ref = -1 THEN None ELSE Lookup(ref)
ImplLastPic == IF disp /= None THEN disp ELSE IF last = -1 THEN None ELSE Lookup(last)
\* @type: (Set({ id: Int, kind: Str, tr: Int, from: Int }), Int, Int) => Set({ id: Int, kind: Str, tr: Int, from: Int });
Prune(s, l, r) == {p \in s : p.tr = l \/ p.tr = r}

Init ==
  /\ rLast = None /\ rRef = None /\ last = -1 /\ ref = -1 /\ store = {} /\ disp = None /\ n = 0

Decode(kind, tr) ==
  IF kind /= "I" /\ rRef = None
  THEN UNCHANGED <<rLast, rRef, last, ref, store, disp, n>>
  ELSE LET rp == [id |-> n + 1, kind |-> kind, tr |-> tr, from |-> IF kind = "I" THEN 0 ELSE rRef.id]
           ip == [id |-> n + 1, kind |-> kind, tr |-> tr, from |-> IF kind = "I" THEN 0 ELSE ImplRefPic.id]
       IN /\ n' = n + 1
          /\ rLast' = rp
          /\ rRef' = IF kind = "D" THEN rRef ELSE rp
          /\ last' = tr
          /\ ref' = IF kind = "D" THEN ref ELSE tr
          /\ IF kind = "D"
             THEN disp' = ip /\ store' = Prune(store, tr, ref)
             ELSE disp' = None /\ store' = Prune({p \in store : p.tr /= tr} \union {ip}, tr, tr)
Reject == UNCHANGED <<rLast, rRef, last, ref, store, disp, n>>
Cleanup == store' = Prune(store, last, ref) /\ UNCHANGED <<rLast, rRef, last, ref, disp, n>>

Next == (\E k \in Kinds : \E t \in TRs : Decode(k, t)) \/ Reject \/ Cleanup

\* the property of C04
RefIsLastNonDisposable ==
  /\ ImplLastPic = rLast
  /\ ImplRefPic = rRef
  /\ rRef.kind /= "D"

\* inductive strengthening: shape of every variable
TypeOK ==
  /\ n >= 0
  /\ last \in {-1} \union TRs /\ ref \in {-1} \union TRs
  /\ \A p \in store : p.tr \in TRs /\ p.id \in 1..n /\ p.kind \in {"I", "P"}
  /\ \A p \in store : \A q \in store : p.tr = q.tr => p = q          \* keys are unique
  /\ (rLast = None) <=> (last = -1)
  /\ (rRef = None) <=> (ref = -1)
  /\ rRef /= None => (rRef \in store /\ rRef.tr = ref /\ rRef.kind \in {"I", "P"})
  /\ rLast /= None => (rLast.tr = last /\ rLast.id \in 1..n /\ rLast.kind \in Kinds)
  /\ (disp /= None) <=> (rLast /= None /\ rLast.kind = "D")
  /\ disp /= None => disp = rLast
  /\ (rLast /= None /\ rLast.kind /= "D") => (rLast \in store /\ rLast = rRef)
  /\ \A p \in store : p.tr = ref \/ p.tr = last
  /\ (rLast = None) => (rRef = None /\ store = {} /\ disp = None)
IndInv == TypeOK /\ RefIsLastNonDisposable

\* initial predicate for the inductive step: any state satisfying IndInv within finite carriers
\* initial predicate for the inductive step: ANY state satisfying IndInv.  Gen(k) is an arbitrary value of the
\* variable's type with collections of at most k elements; IndInv itself bounds the store to two pictures.
IndInit ==
  /\ n = Gen(1) /\ last = Gen(1) /\ ref = Gen(1)
  /\ rLast = Gen(1) /\ rRef = Gen(1) /\ disp = Gen(1)
  /\ store = Gen(3)
  /\ IndInv
\* sanity: IndInit is satisfiable (Apalache must find a state violating this)
NotVacuous == n < 3
=============================================================================
