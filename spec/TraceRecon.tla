----------------------------- MODULE TraceRecon -----------------------------
(***************************************************************************)
(* Trace validation of the reconstruction primitives reached through the   *)
(* verification hooks (C10, C11, C12):                                     *)
(*   rle        inverse_rle: zig-zag placement and dequantisation          *)
(*   mv         mv_decode: predictor + differential, wrapped                *)
(*   chroma_mv  sixteenth-position rounding of the chroma vector            *)
(*   cand       predict_candidate: median of the three candidates           *)
(*   idct       idct_channel on single coefficient blocks, twice: over a    *)
(*              prediction of 0 and of 255, so that the signed, clipped     *)
(*              residual can be observed through the unsigned output        *)
(* For idct events the error against the ideal transform is accumulated    *)
(* per data set (Annex A statistics) and printed when the trace ends.      *)
(***************************************************************************)
EXTENDS Picture, Json, IOUtils, SequencesExt, FiniteSets
Rec == ndJsonDeserialize(IOEnv.TRACE)
VARIABLES l, b, phase, g, f12, tol,
          acc         \* set name -> [n, peak, se: 64 sums of e, se2: 64 sums of e^2]
vars == <<l, b, phase, g, f12, tol, acc>>
E == Rec[l]
Has(f) == f \in DOMAIN E
Diag(cls, what, sig, detail) ==
    PrintT("DIAG " \o ToJson([l |-> l, cls |-> cls, what |-> what, sig |-> sig, detail |-> detail]))
NextLine == l' = l + 1 /\ b' = 1 /\ phase' = 0 /\ g' = <<>> /\ f12' = <<>> /\ tol' = 0

(* ------------------------------------------------------------ rle *)
RleBlock == [dc |-> E.dc, ev |-> [j \in 1..Len(E.ev) |-> <<0, E.ev[j][1], E.ev[j][2], 1>>]]
RleFits == LET idx == ScanIdx(RleBlock) IN \A j \in 1..Len(idx) : idx[j] <= 63
Rle ==
    /\ phase = 0 /\ E.op = "rle"
    /\ IF E.ret # "ok" THEN Diag("IMPL", "inverse-rle-no-return", "dequant-no-return", [ret |-> E.ret, q |-> E.q, ev |-> E.ev])
       ELSE IF E.dc >= 0 /\ ~IntraDcValid(E.dc)
       THEN IF E.dc_accepted THEN Diag("IMPL", "intradc-accepted", "forbidden-intradc-accepted", [dc |-> E.dc]) ELSE TRUE
       ELSE IF E.dc >= 0 /\ ~E.dc_accepted THEN Diag("IMPL", "intradc-rejected", "valid-intradc-rejected", [dc |-> E.dc])
       ELSE IF ~RleFits THEN TRUE        \* runs past the 64th coefficient: outside the property's domain
       ELSE LET exp == Coefs(RleBlock, E.q)
                k == SelectInSeq([j \in 1..64 |-> E.blk.c[j] # exp[j]], LAMBDA t : t)
            IN  IF k = 0 THEN TRUE
                ELSE Diag("IMPL", "coefficient", "dequantised-coefficient",
                          [q |-> E.q, dc |-> E.dc, ev |-> E.ev, index |-> k, got |-> E.blk.c[k], expected |-> exp[k]])
    /\ UNCHANGED acc /\ NextLine

(* ------------------------------------------------------------ vectors *)
Mv ==
    /\ phase = 0 /\ E.op = "mv"
    /\ IF E.ret # "ok" THEN Diag("IMPL", "mv-decode-no-return", "mv-no-return", E.ret)
       ELSE LET k == SelectInSeq([j \in 1..Len(E.pairs) |->
                         E.out[j] # <<WrapMv(E.pairs[j][1], E.pairs[j][2]), WrapMv(E.pairs[j][2], E.pairs[j][1])>>], LAMBDA t : t)
            IN IF k = 0 THEN TRUE
               ELSE Diag("IMPL", "vector", "reconstructed-vector",
                         [pred |-> E.pairs[k][1], diff |-> E.pairs[k][2], got |-> E.out[k],
                          expected |-> WrapMv(E.pairs[k][1], E.pairs[k][2])])
    /\ UNCHANGED acc /\ NextLine
ChromaVecs ==
    /\ phase = 0 /\ E.op = "chroma_mv"
    /\ IF E.ret # "ok" THEN Diag("IMPL", "chroma-no-return", "chroma-no-return", E.ret)
       ELSE LET k == SelectInSeq([j \in 1..Len(E.sums) |-> E.out[j] # ChromaMv(E.sums[j])], LAMBDA t : t)
            IN IF k = 0 THEN TRUE
               ELSE Diag("IMPL", "chroma-vector", "chroma-vector", [sum |-> E.sums[k], got |-> E.out[k], expected |-> ChromaMv(E.sums[k])])
    /\ UNCHANGED acc /\ NextLine
Cand ==
    /\ phase = 0 /\ E.op = "cand"
    /\ IF E.ret # "ok" THEN Diag("IMPL", "predict-candidate-no-return", "candidate-no-return", [ret |-> E.ret, mbw |-> E.mbw, blk |-> E.blk, n |-> Len(E.mvs)])
       ELSE LET exp == PredictMv(E.mvs, E.mbw, Len(E.mvs), E.blk, E.cur) IN
            IF E.out = exp THEN TRUE
            ELSE Diag("IMPL", "predictor", "vector-predictor",
                      [mbw |-> E.mbw, mb |-> Len(E.mvs), blk |-> E.blk, got |-> E.out, expected |-> exp,
                       cands |-> Candidates(E.mvs, E.mbw, Len(E.mvs), E.blk, E.cur)])
    /\ UNCHANGED acc /\ NextLine

(* ------------------------------------------------------------ idct *)
F == E.blocks[b].c
Set == E.set
EmptyAcc == [n |-> 0, peak |-> 0, se |-> [k \in 1..64 |-> 0], se2 |-> [k \in 1..64 |-> 0], amb |-> 0]
AccOf(s) == IF s \in DOMAIN acc THEN acc[s] ELSE EmptyAcc
IdctStart ==
    /\ phase = 0 /\ E.op = "idct"
    /\ IF E.ret # "ok" THEN Diag("IMPL", "idct-no-return", "idct-no-return", E.ret) /\ UNCHANGED acc /\ NextLine
       ELSE IF b > Len(E.blocks) THEN UNCHANGED acc /\ NextLine
       ELSE g' = Pass1(F) /\ phase' = 1 /\ UNCHANGED <<l, b, acc, f12, tol>>
(* "cw" x "ch": the output plane may be smaller than the block (edge of a picture whose size is no multiple of 8) *)
Cw == IF "cw" \in DOMAIN E THEN E.cw ELSE 8
Ch == IF "ch" \in DOMAIN E THEN E.ch ELSE 8
InCrop(k) == ((k - 1) % 8) < Cw /\ ((k - 1) \div 8) < Ch
(* the signed residual observed through the two unsigned outputs *)
Resid(k) == IF E.out0[b][k] > 0 THEN E.out0[b][k] ELSE E.out255[b][k] - 255
IdctPass2 ==
    /\ phase = 1
    /\ f12' = [k \in 1..64 |-> Pass2At(g, ((k - 1) % 8) + 1, ((k - 1) \div 8) + 1)]
    /\ tol' = Tol12(SumAbs(F))          \* tolerance granted to the implementation: eps(F) in units of 2^-12
    /\ phase' = 2 /\ UNCHANGED <<l, b, g, acc>>
IdctCompare ==
    /\ phase = 2
    /\ LET tolI == tol
           \* what the real decoder may produce (eps(F) band) ...
           allow == [k \in 1..64 |-> LET r == RoundRange(f12[k], tolI) IN <<Clamp(r[1], -255, 255), Clamp(r[2], -255, 255)>>]
           \* ... and the rounded ideal value itself (reference of Annex A): exact up to the reference's own error
           refr == [k \in 1..64 |-> LET r == RoundRange(f12[k], 1) IN <<Clamp(r[1], -255, 255), Clamp(r[2], -255, 255)>>]
           res == [k \in 1..64 |-> Resid(k)]
           err == [k \in 1..64 |-> IF ~InCrop(k) THEN 0
                                    ELSE IF res[k] < refr[k][1] THEN res[k] - refr[k][1] ELSE IF res[k] > refr[k][2] THEN res[k] - refr[k][2] ELSE 0]
           \* outside the plane nothing may be written (the pre-fill values 0 / 255 must still be there)
           bad == SelectInSeq([k \in 1..64 |-> IF InCrop(k) THEN res[k] < allow[k][1] \/ res[k] > allow[k][2] \/ Abs(err[k]) > 1
                                               ELSE E.out0[b][k] # 0 \/ E.out255[b][k] # 255], LAMBDA t : t)
           a == AccOf(Set)
       IN
       /\ IF bad # 0
          THEN Diag("IMPL", "idct-sample", "idct-" \o E.blocks[b].k \o "-sample",
                    [set |-> Set, kind |-> E.blocks[b].k, index |-> bad, got |-> res[bad], allowed |-> allow[bad], ideal12 |-> f12[bad], coef |-> F])
          ELSE TRUE
       /\ acc' = [s \in (DOMAIN acc) \cup {Set} |->
                    IF s # Set THEN acc[s]
                    ELSE [n |-> a.n + 1,
                          peak |-> Max2(a.peak, FoldLeft(LAMBDA x, y : Max2(x, Abs(y)), 0, err)),
                          se |-> [k \in 1..64 |-> a.se[k] + err[k]],
                          se2 |-> [k \in 1..64 |-> a.se2[k] + err[k] * err[k]],
                          amb |-> a.amb + Cardinality({k \in 1..64 : refr[k][1] # refr[k][2]})]]
    /\ b' = b + 1 /\ phase' = 0 /\ g' = <<>> /\ f12' = <<>> /\ tol' = 0 /\ l' = l

Unknown == phase = 0 /\ E.op \notin {"rle", "mv", "chroma_mv", "cand", "idct"} /\ Diag("HARNESS", "unknown-op", "harness", E.op)
           /\ UNCHANGED acc /\ NextLine
Init == l = 1 /\ b = 1 /\ phase = 0 /\ g = <<>> /\ f12 = <<>> /\ tol = 0 /\ acc = <<>>
Next == l <= Len(Rec) /\ (Rle \/ Mv \/ ChromaVecs \/ Cand \/ IdctStart \/ IdctPass2 \/ IdctCompare \/ Unknown)
Spec == Init /\ [][Next]_vars
Done == l = Len(Rec) + 1 =>
          /\ PrintT("CONSUMED " \o ToString(l - 1) \o " OF " \o ToString(Len(Rec)))
          /\ PrintT("DIAG " \o ToJson([l |-> 0, cls |-> "ACC", what |-> "idct-statistics", sig |-> "acc", detail |-> acc]))
=============================================================================
