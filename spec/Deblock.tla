------------------------------ MODULE Deblock ------------------------------
(***************************************************************************)
(* H.263 Annex J deblocking edge filter applied as a post-filter to one    *)
(* plane (properties C09, C16).  Written from Annex J (clause J.3, Figure  *)
(* J.2, Table J.2): divisions truncate toward zero.                        *)
(***************************************************************************)
EXTENDS Util

TableJ2 == <<1, 1, 2, 2, 3, 3, 4, 4, 4, 5, 5, 6, 6, 7, 7, 7, 8, 8, 8, 9, 9, 9,
             10, 10, 10, 11, 11, 11, 12, 12, 12>>            \* QUANT 1..31 -> STRENGTH

UpDownRamp(x, s) == Sgn(x) * Max2(0, Abs(x) - Max2(0, 2 * (Abs(x) - s)))
ClipD1(x, lim)   == Clamp(x, -Abs(lim), Abs(lim))
(* the filtered quadruple <<A1, B1, C1, D1>> *)
Kernel(A, B, C, D, s) ==
    LET d  == TDiv(A - 4 * B + 4 * C - D, 8)
        d1 == UpDownRamp(d, s)
        d2 == ClipD1(TDiv(A - D, 4), TDiv(d1, 2))
    IN  <<A - d2, Clamp(B + d1, 0, 255), Clamp(C - d1, 0, 255), D + d2>>

(* Block edges: the "C" sample of a quadruple lies at coordinate e, where   *)
(* e is a positive multiple of 8 and e + 1 is still inside the image.       *)
Edges(n) == {e \in 1..n : e % 8 = 0 /\ e + 1 <= n - 1}
(* For coordinate c: <<e, i>> if c is sample i (1..4 = A..D) of the edge at  *)
(* e, <<-1, 0>> if it belongs to no edge quadruple.                          *)
QuadOf(c, n) ==
    LET r == c % 8
        e == CASE r = 6 -> c + 2 [] r = 7 -> c + 1 [] r = 0 -> c [] r = 1 -> c - 1 [] OTHER -> -1
        i == CASE r = 6 -> 1 [] r = 7 -> 2 [] r = 0 -> 3 [] r = 1 -> 4 [] OTHER -> 0
    IN  IF e >= 8 /\ e + 1 <= n - 1 THEN <<e, i>> ELSE <<-1, 0>>

At(img, w, x, y) == img[y * w + x + 1]
(* filter across every horizontal block edge (quadruples are vertical) *)
HPass(img, w, h, s) ==
    [k \in 1..(w * h) |->
        LET x == (k - 1) % w
            y == (k - 1) \div w
            q == QuadOf(y, h)
        IN  IF q[1] < 0 THEN img[k]
            ELSE Kernel(At(img, w, x, q[1] - 2), At(img, w, x, q[1] - 1),
                        At(img, w, x, q[1]), At(img, w, x, q[1] + 1), s)[q[2]]]
(* filter across every vertical block edge (quadruples are horizontal) *)
VPass(img, w, h, s) ==
    [k \in 1..(w * h) |->
        LET x == (k - 1) % w
            y == (k - 1) \div w
            q == QuadOf(x, w)
        IN  IF q[1] < 0 THEN img[k]
            ELSE Kernel(At(img, w, q[1] - 2, y), At(img, w, q[1] - 1, y),
                        At(img, w, q[1], y), At(img, w, q[1] + 1, y), s)[q[2]]]
(* Annex J order: horizontal edges first, then vertical edges on the result *)
DeblockImage(img, w, s) ==
    LET h  == Len(img) \div w
        hp == TLCEval(HPass(img, w, h, s))
    IN  VPass(hp, w, h, s)
(* samples that no edge quadruple touches *)
Untouched(x, y, w, h) == QuadOf(x, w)[1] < 0 /\ QuadOf(y, h)[1] < 0
=============================================================================
