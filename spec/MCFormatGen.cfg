SPECIFICATION Spec
CONSTANTS Sizes = {1, 2}
  MaxLen = 4
  Design = "current"
INVARIANT SizeInForce
INVARIANT Export
CHECK_DEADLOCK FALSE
