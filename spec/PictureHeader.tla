--------------------------- MODULE PictureHeader ---------------------------
(***************************************************************************)
(* Picture headers (property C06): ITU-T H.263 clause 5.1 (PSC, TR, PTYPE, *)
(* PLUSPTYPE = UFEP / OPPTYPE / MPPTYPE, CPM / PSBI, CPFMT / EPAR, CPCFC /  *)
(* ETR, UUI, SSS, ELNUM / RLNUM, RPSMF, TRPI / TRP, BCI, PQUANT, TRB /      *)
(* DBQUANT, PEI / PSUPP) and the Sorenson Spark header.                     *)
(* An abstract header is a record of field values; HeaderBits gives its     *)
(* encoding (with the presence conditions of 5.1) and Expected the values   *)
(* the parser must report.  Field "bad" injects one wrong marker.           *)
(***************************************************************************)
EXTENDS Util, FiniteSets

StartCode == Zeros(16) \o <<1>>
RECURSIVE PeiBits(_, _)
PeiBits(pei, i) == IF i > Len(pei) THEN <<0>> ELSE <<1>> \o ToBits(pei[i], 8) \o PeiBits(pei, i + 1)
Bad(h, what) == "bad" \in DOMAIN h /\ h.bad = what

(* ------------------------------------------------------------------ Sorenson *)
SorBits(h) ==
    StartCode \o ToBits(h.ver, 5) \o ToBits(h.tr, 8) \o ToBits(h.sc, 3)
    \o (CASE h.sc = 0 -> ToBits(h.w, 8) \o ToBits(h.h, 8) [] h.sc = 1 -> ToBits(h.w, 16) \o ToBits(h.h, 16) [] OTHER -> <<>>)
    \o ToBits(h.type, 2) \o <<h.db>> \o ToBits(h.q, 5) \o PeiBits(h.pei, 1)
(* format code: 1..5 = the standard formats, 6 = custom (w, h given), 0 = reserved *)
SorFormat(h) ==
    CASE h.sc \in {0, 1} -> <<6, h.w, h.h>> [] h.sc = 2 -> <<3, 352, 288>> [] h.sc = 3 -> <<2, 176, 144>>
      [] h.sc = 4 -> <<1, 128, 96>> [] h.sc = 5 -> <<6, 320, 240>> [] h.sc = 6 -> <<6, 160, 120>> [] OTHER -> <<0, 0, 0>>
SorExpected(h) ==
    [version |-> h.ver, tr |-> h.tr, fmt |-> SorFormat(h)[1], w |-> SorFormat(h)[2], h |-> SorFormat(h)[3],
     pt |-> (CASE h.type = 0 -> "I" [] h.type = 1 -> "P" [] h.type = 2 -> "D" [] OTHER -> "R3"),
     opts |-> IF h.db = 1 THEN {"USE_DEBLOCKER"} ELSE {}, q |-> h.q, extra |-> h.pei, plus |-> FALSE, opp |-> FALSE]

(* ------------------------------------------------------------------ standard H.263 *)
(* OPPTYPE mode flags in transmission order (bits 5..15 after the 3 format bits and PCF) *)
OppNames == <<"UNRESTRICTED_MOTION_VECTORS", "SYNTAX_BASED_ARITHMETIC_CODING", "ADVANCED_PREDICTION", "ADVANCED_INTRA_CODING",
              "DEBLOCKING_FILTER", "SLICE_STRUCTURED", "REFERENCE_PICTURE_SELECTION", "INDEPENDENT_SEGMENT_DECODING",
              "ALTERNATIVE_INTER_VLC", "MODIFIED_QUANTIZATION">>
OppSet == {OppNames[i] : i \in 1..10}
MppNames == <<"REFERENCE_PICTURE_RESAMPLING", "REDUCED_RESOLUTION_UPDATE", "ROUNDING_TYPE_ONE">>
HighNames == <<"USE_SPLIT_SCREEN", "USE_DOCUMENT_CAMERA", "RELEASE_FULL_PICTURE_FREEZE">>
BaseNames == <<"UNRESTRICTED_MOTION_VECTORS", "SYNTAX_BASED_ARITHMETIC_CODING", "ADVANCED_PREDICTION">>
Flagged(names, flags) == {names[i] : i \in {j \in 1..Len(names) : flags[j] = 1}}

IsPlus(h) == h.fmt = 7
HasOpp(h) == IsPlus(h) /\ h.ufep = 1
(* modes in force for this picture: retransmitted, or inherited from the previous header *)
OppInForce(h, prevOpts) == IF HasOpp(h) THEN Flagged(OppNames, h.oflags) ELSE prevOpts \cap OppSet
RpsInForce(h, prevOpts) == IsPlus(h) /\ "REFERENCE_PICTURE_SELECTION" \in OppInForce(h, prevOpts)
HasCpfmt(h) == HasOpp(h) /\ h.ofmt = 6
HasCpcfc(h) == HasOpp(h) /\ h.pcf = 1
HasUui(h)   == HasOpp(h) /\ h.oflags[1] = 1
HasSss(h)   == HasOpp(h) /\ h.oflags[6] = 1
HasRpsmf(h) == HasOpp(h) /\ h.oflags[7] = 1
IsPb(h) == IF IsPlus(h) THEN h.mtype = 2 ELSE h.pb = 1

StdBits(h, prevOpts, scal) ==
    StartCode \o Zeros(5) \o ToBits(h.tr, 8)
    \o (IF Bad(h, "ptype-bit1") THEN <<0>> ELSE <<1>>) \o (IF Bad(h, "ptype-bit2") THEN <<1>> ELSE <<0>>)
    \o <<h.split, h.doc, h.freeze>> \o ToBits(h.fmt, 3)
    \o (IF ~IsPlus(h)
        THEN <<h.ptype, h.umv, h.sac, h.ap, h.pb>> \o ToBits(h.q, 5) \o <<h.cpm>> \o (IF h.cpm = 1 THEN ToBits(h.psbi, 2) ELSE <<>>)
             \o (IF h.pb = 1 THEN ToBits(h.trb, 3) \o ToBits(h.dbq, 2) ELSE <<>>)
             \o PeiBits(h.pei, 1)
        ELSE ToBits(h.ufep, 3)
             \o (IF h.ufep = 1
                 THEN ToBits(h.ofmt, 3) \o <<h.pcf>> \o h.oflags \o (IF Bad(h, "opptype-end") THEN <<1, 0, 0, 1>> ELSE <<1, 0, 0, 0>>)
                 ELSE <<>>)
             \o (IF h.ufep \in {0, 1}
                 THEN ToBits(h.mtype, 3) \o h.mflags \o (IF Bad(h, "mpptype-end") THEN <<0, 1, 1>> ELSE <<0, 0, 1>>)
                      \o <<h.cpm>> \o (IF h.cpm = 1 THEN ToBits(h.psbi, 2) ELSE <<>>)
                      \o (IF HasCpfmt(h)
                          THEN ToBits(IF Bad(h, "par-0000") THEN 0 ELSE h.par, 4) \o ToBits(h.pwi, 9)
                               \o (IF Bad(h, "cpfmt-marker") THEN <<0>> ELSE <<1>>) \o ToBits(h.phi, 9)
                               \o (IF h.par = 15 /\ ~Bad(h, "par-0000")
                                   THEN ToBits(IF Bad(h, "epar-zero") THEN 0 ELSE h.parw, 8) \o ToBits(h.parh, 8) ELSE <<>>)
                          ELSE <<>>)
                      \o (IF HasCpcfc(h) THEN ToBits(h.cpcfc, 8) \o ToBits(h.etr, 2) ELSE <<>>)
                      \o (IF HasUui(h) THEN (IF Bad(h, "uui-00") THEN <<0, 0>> ELSE IF h.uui = 1 THEN <<1>> ELSE <<0, 1>>) ELSE <<>>)
                      \o (IF HasSss(h) THEN h.sss ELSE <<>>)
                      \o (IF scal THEN ToBits(h.elnum, 4) \o (IF h.ufep = 1 THEN ToBits(h.rlnum, 4) ELSE <<>>) ELSE <<>>)
                      \o (IF HasRpsmf(h) THEN ToBits(h.rpsmf, 3) ELSE <<>>)
                      \o (IF RpsInForce(h, prevOpts)
                          THEN <<h.trpi>> \o (IF h.trpi = 1 THEN ToBits(h.trp, 10) ELSE <<>>)
                               \o (IF Bad(h, "bci-00") THEN <<0, 0>> ELSE <<0, 1>>)        \* BCI "01": no back-channel message
                          ELSE <<>>)
                      \o ToBits(h.q, 5)
                      \o (IF IsPb(h) THEN ToBits(h.trb, IF HasCpcfc(h) THEN 5 ELSE 3) \o ToBits(h.dbq, 2) ELSE <<>>)
                      \o PeiBits(h.pei, 1)
                 ELSE <<>>))
(* headers that must be rejected *)
StdMalformed(h) ==
    \/ "bad" \in DOMAIN h
    \/ h.fmt = 0
    \/ (IsPlus(h) /\ h.ufep \notin {0, 1})
    \/ (HasCpfmt(h) /\ (h.par = 0 \/ (h.par = 15 /\ (h.parw = 0 \/ h.parh = 0))))
StdFormats == <<<<1, 128, 96>>, <<2, 176, 144>>, <<3, 352, 288>>, <<4, 704, 576>>, <<5, 1408, 1152>>>>
StdFormat(h) ==     \* <<format code, width, height>>; -1 = not transmitted, 0 = reserved code
    IF ~IsPlus(h) THEN (IF h.fmt = 6 THEN <<0, 0, 0>> ELSE StdFormats[h.fmt])
    ELSE IF ~HasOpp(h) THEN <<-1, 0, 0>>
    ELSE IF h.ofmt \in 1..5 THEN StdFormats[h.ofmt]
    ELSE IF h.ofmt = 6 THEN <<6, 4 * (h.pwi + 1), 4 * h.phi>>
    ELSE <<0, 0, 0>>
StdType(h) ==
    IF ~IsPlus(h) THEN (IF h.pb = 1 THEN "PB" ELSE IF h.ptype = 0 THEN "I" ELSE "P")
    ELSE CASE h.mtype = 0 -> "I" [] h.mtype = 1 -> "P" [] h.mtype = 2 -> "IPB" [] h.mtype = 3 -> "B" [] h.mtype = 4 -> "EI"
           [] h.mtype = 5 -> "EP" [] h.mtype = 6 -> "R6" [] OTHER -> "R7"
StdExpected(h, prevOpts, scal) ==
    [version |-> -1,
     tr |-> IF HasCpcfc(h) THEN 256 * h.etr + h.tr ELSE h.tr,
     fmt |-> StdFormat(h)[1], w |-> StdFormat(h)[2], h |-> StdFormat(h)[3],
     par |-> IF HasCpfmt(h) THEN h.par ELSE -1,
     parw |-> IF HasCpfmt(h) /\ h.par = 15 THEN h.parw ELSE 0, parh |-> IF HasCpfmt(h) /\ h.par = 15 THEN h.parh ELSE 0,
     opts |-> Flagged(HighNames, <<h.split, h.doc, h.freeze>>)
              \cup (IF IsPlus(h) THEN OppInForce(h, prevOpts) \cup Flagged(MppNames, h.mflags)
                    ELSE Flagged(BaseNames, <<h.umv, h.sac, h.ap>>)),
     plus |-> IsPlus(h), opp |-> HasOpp(h), pt |-> StdType(h),
     mvr |-> IF HasUui(h) THEN (IF h.uui = 1 THEN 1 ELSE 2) ELSE -1,           \* 1 = limited by Tables D.1/D.2, 2 = unlimited
     sss |-> IF HasSss(h) THEN Flagged(<<"RECTANGULAR_SLICES", "ARBITRARY_ORDER">>, h.sss) ELSE {"-"},
     elnum |-> IF scal /\ IsPlus(h) THEN h.elnum ELSE -1, rlnum |-> IF scal /\ HasOpp(h) THEN h.rlnum ELSE -1,
     \* RPSMF (5.1.13): 100 neither, 101 ACK, 110 NACK, 111 both; 0xx reserved
     rpsmf |-> IF HasRpsmf(h)
               THEN (IF h.rpsmf \div 4 = 0 THEN {"RESERVED"} ELSE {})
                    \cup (IF (h.rpsmf \div 2) % 2 = 1 THEN {"REQUEST_NEGATIVE_ACKNOWLEDGEMENT"} ELSE {})
                    \cup (IF h.rpsmf % 2 = 1 THEN {"REQUEST_ACKNOWLEDGEMENT"} ELSE {})
               ELSE {"-"},
     trp |-> IF IsPlus(h) /\ RpsInForce(h, prevOpts) /\ h.trpi = 1 THEN h.trp ELSE -1,
     q |-> h.q, psbi |-> IF h.cpm = 1 THEN h.psbi ELSE -1,
     trb |-> IF IsPb(h) THEN h.trb ELSE -1, dbq |-> IF IsPb(h) THEN h.dbq ELSE -1,
     extra |-> h.pei]
=============================================================================
