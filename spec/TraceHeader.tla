----------------------------- MODULE TraceHeader -----------------------------
(* Trace validation of parser::decode_picture against PictureHeader.tla (C06). *)
EXTENDS PictureHeader, Json, IOUtils, SequencesExt
Rec == ndJsonDeserialize(IOEnv.TRACE)
VARIABLE l
E == Rec[l]
H == E.hdr          \* the abstract header
G == E.got          \* what the parser reported
Diag(cls, what, sig, detail) ==
    PrintT("DIAG " \o ToJson([l |-> l, cls |-> cls, what |-> what, sig |-> sig, detail |-> detail]))
SetOf(s) == {s[i] : i \in 1..Len(s)}
PrevOpts == IF "prevopts" \in DOMAIN E THEN SetOf(E.prevopts) ELSE {}
Bits == IF H.k = "sor" THEN SorBits(H) ELSE StdBits(H, PrevOpts, E.scal)
AllBits == Bits \o BitsOfBytes(E.tail)
ProbeExp ==     \* the 24 / 16 / ... bits following the header
    LET p == Len(Bits)  r == Len(AllBits) - p IN
    IF r >= 24 THEN <<24, BitsAt(AllBits, p + 1, 24)>> ELSE IF r >= 16 THEN <<16, BitsAt(AllBits, p + 1, 16)>>
    ELSE IF r >= 8 THEN <<8, BitsAt(AllBits, p + 1, 8)>> ELSE IF r >= 4 THEN <<4, BitsAt(AllBits, p + 1, 4)>>
    ELSE IF r >= 2 THEN <<2, BitsAt(AllBits, p + 1, 2)>> ELSE IF r >= 1 THEN <<1, BitsAt(AllBits, p + 1, 1)>> ELSE <<0, 0>>
Field(name, got, exp) == IF got = exp THEN <<>> ELSE <<[field |-> name, got |-> got, expected |-> exp]>>
SorDiff ==
    LET x == SorExpected(H) IN
    Field("version", G.version, x.version) \o Field("temporal_reference", G.tr, x.tr) \o Field("format", G.fmt, x.fmt)
    \o (IF x.fmt # 0 THEN Field("width", G.w, x.w) \o Field("height", G.h, x.h) ELSE <<>>)
    \o Field("picture_type", G.pt, x.pt) \o Field("options", SetOf(G.opts), x.opts) \o Field("quantizer", G.q, x.q)
    \o Field("extra", G.extra, x.extra) \o Field("has_plusptype", G.plus, FALSE) \o Field("has_opptype", G.opp, FALSE)
StdDiff ==
    LET x == StdExpected(H, PrevOpts, E.scal) IN
    Field("version", G.version, -1) \o Field("temporal_reference", G.tr, x.tr) \o Field("format", G.fmt, x.fmt)
    \o (IF x.fmt > 0 THEN Field("width", G.w, x.w) \o Field("height", G.h, x.h) ELSE <<>>)
    \o (IF x.fmt = 6 THEN Field("pixel_aspect_ratio", G.par, x.par) \o Field("par_width", G.parw, x.parw) \o Field("par_height", G.parh, x.parh) ELSE <<>>)
    \o Field("options", SetOf(G.opts), x.opts) \o Field("has_plusptype", G.plus, x.plus) \o Field("has_opptype", G.opp, x.opp)
    \o Field("picture_type", G.pt, x.pt) \o Field("motion_vector_range", G.mvr, x.mvr)
    \o Field("slice_submode", IF G.sss = <<"-">> THEN {"-"} ELSE SetOf(G.sss), x.sss)
    \o Field("enhancement_layer", G.elnum, x.elnum) \o Field("reference_layer", G.rlnum, x.rlnum)
    \o Field("reference_picture_selection_mode", IF G.rpsmf = <<"-">> THEN {"-"} ELSE SetOf(G.rpsmf), x.rpsmf)
    \o Field("prediction_reference", G.trp, x.trp) \o Field("quantizer", G.q, x.q) \o Field("multiplex_bitstream", G.psbi, x.psbi)
    \o Field("pb_reference", G.trb, x.trb) \o Field("pb_quantizer", G.dbq, x.dbq) \o Field("extra", G.extra, x.extra)
MustReject == H.k = "std" /\ StdMalformed(H)
Check ==
    IF BytesOfBits(AllBits) # E.bytes THEN Diag("HARNESS", "bytes-are-not-the-encoding-of-the-header", "harness", l)
    ELSE IF E.rc = "panic" THEN Diag("IMPL", "header-parser-no-return", "header-no-return", [ret |-> E.ret, hdr |-> H])
    ELSE IF MustReject
    THEN IF E.rc = "err" THEN TRUE
         ELSE Diag("IMPL", "malformed-header-accepted", "header-accepted-" \o (IF "bad" \in DOMAIN H THEN H.bad ELSE "forbidden-value"), [hdr |-> H, ret |-> E.ret])
    ELSE IF E.rc # "ok"
    THEN Diag("IMPL", "valid-header-rejected",
              "header-rejected-" \o H.k \o (IF H.k = "std" /\ IsPlus(H) THEN (IF H.ufep = 0 THEN "-ufep0" ELSE "-ufep1") ELSE ""),
              [ret |-> E.ret, hdr |-> H, prevopts |-> PrevOpts])
    ELSE LET d == IF H.k = "sor" THEN SorDiff ELSE StdDiff IN
         IF d # <<>> THEN Diag("IMPL", "header-field", "header-field-" \o d[1].field, [diff |-> d, hdr |-> H])
         ELSE IF E.probe # ProbeExp
         THEN Diag("IMPL", "header-length", "header-bits-consumed", [got |-> E.probe, expected |-> ProbeExp, hbits |-> Len(Bits), hdr |-> H])
         ELSE TRUE
Init == l = 1
Next == l <= Len(Rec) /\ (IF E.op = "header" THEN Check ELSE Diag("HARNESS", "unknown-op", "harness", E.op)) /\ l' = l + 1
Spec == Init /\ [][Next]_l
Done == l = Len(Rec) + 1 => PrintT("CONSUMED " \o ToString(l - 1) \o " OF " \o ToString(Len(Rec)))
=============================================================================
