--------------------------- MODULE EncodePictures ---------------------------
(* Specification -> implementation direction: TLC turns abstract pictures    *)
(* (file IN, one command per line, field "pic") into the byte strings that   *)
(* encode them (Picture!PaddedBits) and writes the commands for the driver   *)
(* (file OUT).  Commands without a "pic" field pass through unchanged.       *)
EXTENDS Picture, Json, IOUtils
In == ndJsonDeserialize(IOEnv.IN)
Enc(c) ==
    IF "pic" \notin DOMAIN c THEN c
    ELSE IF ~("opaque" \in DOMAIN c) /\ ~WellFormed(Effective(c.pic)) THEN [illformed |-> TRUE] @@ c
    ELSE [bytes |-> BytesOfBits(PaddedBits(c.pic)), nbits |-> Len(PictureBits(c.pic)), hbits |-> Len(HeaderBits(c.pic))] @@ c
VARIABLE n
Init == n = 0
Next == /\ n = 0
        /\ ndJsonSerialize(IOEnv.OUT, [i \in 1..Len(In) |-> Enc(In[i])])
        /\ n' = Len(In)
Spec == Init /\ [][Next]_n
Done == n > 0 => PrintT("ENCODED " \o ToString(n))
=============================================================================
