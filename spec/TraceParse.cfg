SPECIFICATION Spec
CHECK_DEADLOCK FALSE
INVARIANT Done
