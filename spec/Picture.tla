------------------------------ MODULE Picture ------------------------------
(***************************************************************************)
(* The picture layer: an abstract picture (header + macroblock records)    *)
(* and its two meanings - the bit string that encodes it (H.263 clauses    *)
(* 5.1, 5.3, 5.4 and the Sorenson Spark header / escape layout) and the    *)
(* decoding state it induces (quantizers, motion vectors, coefficients).   *)
(* Used as encoder (abstract input -> bits fed to the real decoder) and as *)
(* oracle (abstract input -> what the decoder must produce).               *)
(*                                                                         *)
(* pic = [hk: "sor" | "plus" | "base", ver, tr, sc, w, h, pt: "I"|"P"|"D", *)
(*        db, q, pei: <<bytes>>, mbs: <<mb>>, pad: 0..7, fmt]               *)
(* mb  = [k: "stuff"] | [k: "skip"] |                                      *)
(*       [k: "mb", t: 0..5, cbpc: 0..3, cbpy: 0..15, dq, mvd: <<<<dx,dy>>..>>, b: <<blk x 6>>] *)
(* blk = [dc: INTRADC code or -1, ev: <<<<last, run, level, form>>..>>]     *)
(*       form 0 = Table 16 code, 1 = escape (8-bit level; 7-bit in Sorenson *)
(*       version 1), 2 = Sorenson version-1 escape with 11-bit level        *)
(***************************************************************************)
EXTENDS Recon

(* ------------------------------ table look-ups (encoder side) --------------------- *)
CodeOf(tbl, val) == tbl[CHOOSE i \in 1..Len(tbl) : tbl[i][2] = val][1]
HasCode(tbl, val) == \E i \in 1..Len(tbl) : tbl[i][2] = val
StartCode == Zeros(16) \o <<1>>

(* ------------------------------ picture headers ---------------------------------- *)
(* Unrestricted Motion Vector mode (Annex D) can be signalled in a PLUSPTYPE header (fields umv, uui): the differentials   *)
(* are then coded with the reversible code of Table D.3.  Only the SYNTAX is specified here (used for inputs that are not *)
(* claimed valid); reconstruction in UMV mode is not specified.                                                           *)
Umv(pic) == pic.hk = "plus" /\ "umv" \in DOMAIN pic /\ pic.umv = 1
(* A PLUSPTYPE header with UFEP = 000 does not retransmit OPPTYPE: the picture has the size (fields w, h of the abstract  *)
(* picture) and the optional modes of the picture before it.  Only predicted pictures may be sent that way.               *)
Ufep0(pic) == pic.hk = "plus" /\ "ufep0" \in DOMAIN pic /\ pic.ufep0 = 1
(* Custom picture clock frequency (OPPTYPE bit 4): CPCFC and the two ETR bits follow CPFMT and the temporal reference has  *)
(* ten bits (pic.tr in 0..1023, its low eight in TR).                                                                     *)
Pcf(pic) == pic.hk = "plus" /\ "pcf" \in DOMAIN pic /\ pic.pcf = 1 /\ ~Ufep0(pic)
RECURSIVE UmvDataBits(_, _)
UmvDataBits(m, k) == IF k = 0 THEN <<>> ELSE <<(m \div Pow2(k - 1)) % 2, 1>> \o UmvDataBits(m, k - 1)
RECURSIVE Log2Floor(_)
Log2Floor(n) == IF n <= 1 THEN 0 ELSE 1 + Log2Floor(n \div 2)
(* Table D.3: 0 -> "1"; otherwise "0", then for each bit below the leading one <<bit, 1>>, then <<sign, 0>> *)
UmvCode(v) == IF v = 0 THEN <<1>>
              ELSE LET a == Abs(v)  k == Log2Floor(a) IN <<0>> \o UmvDataBits(a - Pow2(k), k) \o <<IF v < 0 THEN 1 ELSE 0, 0>>
SorensonSize(sc, w, h) ==
    CASE sc = 0 -> ToBits(w, 8) \o ToBits(h, 8)
      [] sc = 1 -> ToBits(w, 16) \o ToBits(h, 16)
      [] OTHER  -> <<>>
SorensonDims(sc, w, h) ==
    CASE sc = 0 -> <<w, h>> [] sc = 1 -> <<w, h>> [] sc = 2 -> <<352, 288>> [] sc = 3 -> <<176, 144>>
      [] sc = 4 -> <<128, 96>> [] sc = 5 -> <<320, 240>> [] sc = 6 -> <<160, 120>>
TypeCode(pt) == CASE pt = "I" -> 0 [] pt = "P" -> 1 [] pt = "D" -> 2 [] OTHER -> 3      \* 3 is reserved
RECURSIVE PeiBits(_, _)
PeiBits(pei, i) == IF i > Len(pei) THEN <<0>> ELSE <<1>> \o ToBits(pei[i], 8) \o PeiBits(pei, i + 1)
StdDims(fmt) == CASE fmt = 1 -> <<128, 96>> [] fmt = 2 -> <<176, 144>> [] fmt = 3 -> <<352, 288>>
                  [] fmt = 4 -> <<704, 576>> [] fmt = 5 -> <<1408, 1152>>
Dims(pic) == CASE pic.hk = "sor"  -> SorensonDims(pic.sc, pic.w, pic.h)
               [] pic.hk = "base" -> StdDims(pic.fmt)
               [] OTHER           -> <<pic.w, pic.h>>
HeaderBits(pic) ==
    CASE pic.hk = "sor" ->
           StartCode \o ToBits(pic.ver, 5) \o ToBits(pic.tr, 8) \o ToBits(pic.sc, 3)
           \o SorensonSize(pic.sc, pic.w, pic.h) \o ToBits(TypeCode(pic.pt), 2) \o <<pic.db>>
           \o ToBits(pic.q, 5) \o PeiBits(pic.pei, 1)
      [] pic.hk = "base" ->      \* PSC TR PTYPE(13) PQUANT CPM PEI ; PTYPE bit 9: 0 = INTRA, 1 = INTER
           StartCode \o Zeros(5) \o ToBits(pic.tr, 8) \o <<1, 0, 0, 0, 0>> \o ToBits(pic.fmt, 3)
           \o <<IF pic.pt = "I" THEN 0 ELSE 1, 0, 0, 0, 0>> \o ToBits(pic.q, 5) \o <<0>> \o PeiBits(pic.pei, 1)
      [] pic.hk = "plus" /\ Ufep0(pic) ->   \* PSC TR PTYPE(8, format 111) UFEP=000 MPPTYPE CPM PQUANT PEI: nothing of OPPTYPE
           StartCode \o Zeros(5) \o ToBits(pic.tr, 8) \o <<1, 0, 0, 0, 0, 1, 1, 1>>       \* is sent; size and modes are
           \o <<0, 0, 0>>                                                                 \* those of the previous picture
           \o ToBits(IF pic.pt = "I" THEN 0 ELSE 1, 3) \o <<0, 0, 0>> \o <<0, 0, 1>>
           \o <<0>> \o ToBits(pic.q, 5) \o PeiBits(pic.pei, 1)
      [] pic.hk = "plus" ->      \* PSC TR PTYPE(8, format 111) UFEP=001 OPPTYPE MPPTYPE CPM CPFMT PQUANT PEI
           StartCode \o Zeros(5) \o ToBits(pic.tr % 256, 8) \o <<1, 0, 0, 0, 0, 1, 1, 1>>
           \o <<0, 0, 1>>                                              \* UFEP
           \o <<1, 1, 0>> \o <<IF Pcf(pic) THEN 1 ELSE 0, IF Umv(pic) THEN 1 ELSE 0>> \o Zeros(9) \o <<1, 0, 0, 0>>   \* OPPTYPE: custom format; optionally UMV
           \o ToBits(IF pic.pt = "I" THEN 0 ELSE 1, 3) \o <<0, 0, 0>> \o <<0, 0, 1>>     \* MPPTYPE
           \o <<0>>                                                    \* CPM
           \o <<0, 0, 0, 1>> \o ToBits((pic.w \div 4) - 1, 9) \o <<1>> \o ToBits(pic.h \div 4, 9)   \* CPFMT, square pixels
           \o (IF Pcf(pic) THEN ToBits(pic.cpcfc, 8) \o ToBits(pic.tr \div 256, 2) ELSE <<>>)       \* CPCFC, ETR: TR has 10 bits
           \o (IF Umv(pic) THEN (IF pic.uui = 1 THEN <<1>> ELSE <<0, 1>>) ELSE <<>>)              \* UUI: "1" limited, "01" unlimited
           \o ToBits(pic.q, 5) \o PeiBits(pic.pei, 1)

(* ------------------------------ macroblock and block layer ------------------------ *)
IsIntraT(t) == t \in {3, 4}
HasDq(t)    == t \in {1, 4, 5}
Is4V(t)     == t \in {2, 5}
DqBits(dq) == CASE dq = -1 -> <<0, 0>> [] dq = -2 -> <<0, 1>> [] dq = 1 -> <<1, 0>> [] dq = 2 -> <<1, 1>>
EventBits(ev, ver1) ==
    LET last == ev[1]  run == ev[2]  lev == ev[3]  form == ev[4] IN
    IF form = 0 THEN CodeOf(Tcoef, <<last, run, Abs(lev)>>) \o <<IF lev < 0 THEN 1 ELSE 0>>
    ELSE CodeOf(Tcoef, <<-1, 0, 0>>)
         \o (IF ver1 THEN <<IF form = 2 THEN 1 ELSE 0>> ELSE <<>>)
         \o <<last>> \o ToBits(run, 6)
         \o ToBitsS(lev, IF ver1 THEN (IF form = 2 THEN 11 ELSE 7) ELSE 8)
RECURSIVE EventsBits(_, _, _)
EventsBits(evs, i, ver1) == IF i > Len(evs) THEN <<>> ELSE EventBits(evs[i], ver1) \o EventsBits(evs, i + 1, ver1)
BlockBits(blk, ver1) == (IF blk.dc >= 0 THEN ToBits(blk.dc, 8) ELSE <<>>) \o EventsBits(blk.ev, 1, ver1)
RECURSIVE MvdBits(_, _)
MvdBits(mvd, i) == IF i > Len(mvd) THEN <<>> ELSE CodeOf(Mvd, mvd[i][1]) \o CodeOf(Mvd, mvd[i][2]) \o MvdBits(mvd, i + 1)
RECURSIVE UmvBits(_, _)
UmvBits(mvd, i) == IF i > Len(mvd) THEN <<>> ELSE UmvCode(mvd[i][1]) \o UmvCode(mvd[i][2]) \o UmvBits(mvd, i + 1)
MbBits(mb, intraPic, ver1, umv) ==
    CASE mb.k = "stuff" -> (IF intraPic THEN <<>> ELSE <<0>>) \o CodeOf(IF intraPic THEN McbpcI ELSE McbpcP, <<-1, 0>>)
      [] mb.k = "skip"  -> <<1>>
      [] mb.k = "raw"   -> mb.bits      \* arbitrary bits (only in inputs that are not claimed to be valid pictures)
      [] OTHER ->
           LET cod   == IF intraPic THEN <<>> ELSE <<0>>
               mcbpc == CodeOf(IF intraPic THEN McbpcI ELSE McbpcP, <<mb.t, mb.cbpc>>)
               cbpy  == CodeOf(Cbpy, IF IsIntraT(mb.t) THEN mb.cbpy ELSE 15 - mb.cbpy)
               dq    == IF HasDq(mb.t) THEN DqBits(mb.dq) ELSE <<>>
               fault == IF "fault" \in DOMAIN mb THEN mb.fault ELSE "none"
               mvds  == IF umv THEN UmvBits(mb.mvd, 1) ELSE MvdBits(mb.mvd, 1)
           IN  \* fault injection (inputs that are not claimed valid): the named element is replaced by a
               \* prefix that begins no code word of its table and the macroblock stops there
               CASE fault = "mcbpc" -> cod \o (IF intraPic THEN McbpcIInvalid[1] ELSE McbpcPInvalid[1])
                 [] fault = "cbpy"  -> cod \o mcbpc \o CbpyInvalid[1]
                 [] fault = "mvd"   -> cod \o mcbpc \o cbpy \o dq \o MvdInvalid[1]
                 [] fault = "tcoef" -> cod \o mcbpc \o cbpy \o dq \o mvds
                                       \o (IF mb.b[1].dc >= 0 THEN ToBits(mb.b[1].dc, 8) ELSE <<>>) \o TcoefInvalid[1]
                 [] OTHER ->
                      cod \o mcbpc \o cbpy \o dq \o mvds
                      \o BlockBits(mb.b[1], ver1) \o BlockBits(mb.b[2], ver1) \o BlockBits(mb.b[3], ver1)
                      \o BlockBits(mb.b[4], ver1) \o BlockBits(mb.b[5], ver1) \o BlockBits(mb.b[6], ver1)
Ver1(pic) == pic.hk = "sor" /\ pic.ver = 1
IntraPic(pic) == pic.pt = "I"
(* "rep": the single macroblock of pic.mbs stands for pic.rep equal macroblocks (very large pictures: the bits are laid out   *)
(* as one function instead of being concatenated macroblock by macroblock)                                                  *)
RepeatBits(m, n) == [k \in 1..(n * Len(m)) |-> m[((k - 1) % Len(m)) + 1]]
MbsBits(pic) == IF "rep" \in DOMAIN pic
                THEN RepeatBits(MbBits(pic.mbs[1], IntraPic(pic), Ver1(pic), Umv(pic)), pic.rep)
                ELSE ConcatAll([i \in 1..Len(pic.mbs) |-> MbBits(pic.mbs[i], IntraPic(pic), Ver1(pic), Umv(pic))])
(* the picture without its trailing padding; EndLen = number of bits up to the end of the last macroblock *)
PictureBits(pic) == HeaderBits(pic) \o MbsBits(pic)
(* a picture is followed by fewer than eight zero bits up to the next byte boundary *)
PaddedBits(pic)  == PadToByte(PictureBits(pic))

(* ------------------------------ well-formedness ---------------------------------- *)
Coded(mb, b) == IF b <= 4 THEN (mb.cbpy \div Pow2(4 - b)) % 2 = 1 ELSE IF b = 5 THEN mb.cbpc \div 2 = 1 ELSE mb.cbpc % 2 = 1
RECURSIVE RunSum(_, _)
RunSum(evs, i) == IF i > Len(evs) THEN 0 ELSE evs[i][2] + 1 + RunSum(evs, i + 1)
EventOk(ev, ver1) ==
    /\ ev[1] \in {0, 1} /\ ev[2] \in 0..63 /\ ev[3] # 0
    /\ CASE ev[4] = 0 -> HasCode(Tcoef, <<ev[1], ev[2], Abs(ev[3])>>)
         [] ev[4] = 1 -> IF ver1 THEN ev[3] \in -63..63 ELSE ev[3] \in -127..127
         [] ev[4] = 2 -> ver1 /\ ev[3] \in -1023..1023
         [] OTHER -> FALSE
BlockOk(blk, coded, intra, ver1) ==
    /\ (intra <=> blk.dc >= 0) /\ (blk.dc >= 0 => IntraDcValid(blk.dc))
    /\ coded <=> Len(blk.ev) > 0
    /\ \A i \in 1..Len(blk.ev) : EventOk(blk.ev[i], ver1) /\ (blk.ev[i][1] = 1 <=> i = Len(blk.ev))
    /\ RunSum(blk.ev, 1) + (IF intra THEN 1 ELSE 0) <= 64
MbOk(mb, intraPic, ver1) ==
    CASE mb.k = "stuff" -> TRUE
      [] mb.k = "skip" -> ~intraPic
      [] mb.k = "raw" -> FALSE
      [] OTHER ->
           /\ "fault" \notin DOMAIN mb
           /\ mb.t \in (IF intraPic THEN {3, 4} ELSE 0..5) /\ mb.cbpc \in 0..3 /\ mb.cbpy \in 0..15
           /\ (HasDq(mb.t) => mb.dq \in {-2, -1, 1, 2}) /\ (~HasDq(mb.t) => mb.dq = 0)
           /\ Len(mb.mvd) = (IF IsIntraT(mb.t) THEN 0 ELSE IF Is4V(mb.t) THEN 4 ELSE 1)
           /\ \A i \in 1..Len(mb.mvd) : mb.mvd[i][1] \in -32..31 /\ mb.mvd[i][2] \in -32..31
           /\ Len(mb.b) = 6
           /\ \A b \in 1..6 : BlockOk(mb.b[b], Coded(mb, b), IsIntraT(mb.t), ver1)
IsReal(mb) == mb.k # "stuff"
RealMbs(pic) == SelectSeq(pic.mbs, IsReal)
NMb(pic) == MbW(Dims(pic)[1]) * MbH(Dims(pic)[2])
WellFormed(pic) ==
    /\ pic.hk \in {"sor", "plus", "base"} /\ pic.pt \in {"I", "P", "D"} /\ pic.q \in 1..31 /\ pic.tr \in 0..(IF Pcf(pic) THEN 1023 ELSE 255)
    /\ Pcf(pic) => pic.cpcfc \in 0..255
    /\ pic.db \in {0, 1}
    /\ pic.hk = "sor" => (pic.ver \in 0..31 /\ pic.sc \in 0..6
                           /\ (pic.sc = 0 => pic.w \in 1..255 /\ pic.h \in 1..255) /\ (pic.sc = 1 => pic.w \in 1..65535 /\ pic.h \in 1..65535))
    /\ Ufep0(pic) => (pic.pt = "P" /\ ~Umv(pic))
    /\ ~Umv(pic)                                   \* reconstruction in UMV mode is not specified: such pictures are opaque inputs
    /\ pic.hk = "plus" => (pic.w % 4 = 0 /\ pic.h % 4 = 0 /\ pic.w \in 4..2048 /\ pic.h \in 4..1152 /\ pic.pt # "D")
    /\ pic.hk = "base" => (pic.fmt \in 1..5 /\ pic.pt # "D")
    /\ \A i \in 1..Len(pic.pei) : pic.pei[i] \in 0..255
    /\ \A i \in 1..Len(pic.mbs) : MbOk(pic.mbs[i], IntraPic(pic), Ver1(pic))
    /\ Len(RealMbs(pic)) <= NMb(pic)
    /\ pic.mbs # <<>> => (IsReal(pic.mbs[Len(pic.mbs)]) \/ pic.hk # "sor")    \* no stuffing after the last macroblock

(* Error concealment in standard H.263 mode (a named deviation of the decoder, beyond the listed properties): a last    *)
(* macroblock whose MCBPC or CBPY is no code word ends the picture there.  Effective(pic) = the picture that is decoded. *)
Concealed(pic) == /\ pic.hk # "sor" /\ Len(pic.mbs) >= 1
                  /\ LET m == pic.mbs[Len(pic.mbs)] IN m.k = "mb" /\ "fault" \in DOMAIN m /\ m.fault \in {"mcbpc", "cbpy"}
Effective(pic) == IF Concealed(pic) THEN [pic EXCEPT !.mbs = SubSeq(pic.mbs, 1, Len(pic.mbs) - 1)] ELSE pic

(* ------------------------------ decoding state induced by a picture --------------- *)
(* quantizer in force for each real macroblock *)
RECURSIVE QuantR(_, _, _)
QuantR(mbs, i, q) ==
    IF i > Len(mbs) THEN <<>>
    ELSE LET q1 == IF mbs[i].k = "mb" THEN QuantUpdate(q, mbs[i].dq) ELSE q IN <<q1>> \o QuantR(mbs, i + 1, q1)
Quants(pic) == QuantR(RealMbs(pic), 1, pic.q)
(* motion vectors: for each macroblock of the picture (missing ones = not coded) four <<x,y>> *)
FourZero == <<Zero2, Zero2, Zero2, Zero2>>
MbVectors(mvs, mbw, i, mb) ==       \* i = 0-based index of mb; mvs = vectors of macroblocks 0..i-1
    IF mb.k # "mb" \/ IsIntraT(mb.t) THEN FourZero
    ELSE IF ~Is4V(mb.t)
    THEN LET v == DecodeMv(PredictMv(mvs, mbw, i, 0, FourZero), mb.mvd[1]) IN <<v, v, v, v>>
    ELSE LET v1 == DecodeMv(PredictMv(mvs, mbw, i, 0, FourZero), mb.mvd[1])
             v2 == DecodeMv(PredictMv(mvs, mbw, i, 1, <<v1, Zero2, Zero2, Zero2>>), mb.mvd[2])
             v3 == DecodeMv(PredictMv(mvs, mbw, i, 2, <<v1, v2, Zero2, Zero2>>), mb.mvd[3])
             v4 == DecodeMv(PredictMv(mvs, mbw, i, 3, <<v1, v2, v3, Zero2>>), mb.mvd[4])
         IN  <<v1, v2, v3, v4>>
RECURSIVE MvsR(_, _, _, _, _)
MvsR(mbs, n, mbw, i, acc) ==
    IF i >= n THEN acc
    ELSE MvsR(mbs, n, mbw, i + 1,
              Append(acc, IF i + 1 <= Len(mbs) THEN MbVectors(acc, mbw, i, mbs[i + 1]) ELSE FourZero))
Mvs(pic) == MvsR(RealMbs(pic), NMb(pic), MbW(Dims(pic)[1]), 0, <<>>)
(* macroblock kinds for the whole picture: "intra", "inter", "skip" (missing = skip) *)
MbKind(pic, i) ==       \* i 0-based
    LET r == RealMbs(pic) IN
    IF i + 1 > Len(r) \/ r[i + 1].k = "skip" THEN "skip" ELSE IF IsIntraT(r[i + 1].t) THEN "intra" ELSE "inter"
=============================================================================
