------------------------------ MODULE Format ------------------------------
(***************************************************************************)
(* Picture size across a standard-mode stream (C06 last sentence, C02,     *)
(* C03): which size a picture is decoded at when its header does or does   *)
(* not transmit a source format, and when a change of size is accepted.    *)
(*                                                                         *)
(* Requirement layer: rSize is the size of the most recent picture.        *)
(*   - a header that transmits a size: an intra picture is decoded at that *)
(*     size whatever came before; a predicted picture only if it is the    *)
(*     size of its reference (resampling is not offered);                  *)
(*   - a header that transmits none (PLUSPTYPE, UFEP = 000): only a        *)
(*     predicted picture, only after some picture, at THAT picture's size  *)
(*     - also when that picture had inherited its size itself.             *)
(* Implementation-shaped layer, one variable per thing decoder/state.rs    *)
(* and parser/picture.rs consult: hdrFmt = the `format` field of the last  *)
(* picture's HEADER (none if it was not transmitted), picFmt = the format  *)
(* the last picture was decoded with.  Design selects the tree:            *)
(*   "current"      the repaired tree                                      *)
(*   "rprp-any"     the pinned tree: any picture whose transmitted format  *)
(*                  differs from the previous header's is routed to RPRP   *)
(*                  parsing (unimplemented) - DESIGN.md 6 #16              *)
(*   "from-header"  the inherited size is taken from the previous HEADER   *)
(*                  instead of the previous PICTURE (seeded change C06-3B) *)
(***************************************************************************)
EXTENDS Integers, Sequences, TLC
CONSTANTS Sizes, MaxLen, Design
NoSize == 0
VARIABLES rSize,            \* requirement: size of the most recent picture (NoSize: none yet)
          hdrFmt, picFmt,   \* implementation-shaped layer, see above
          hist, outcome     \* calls so far, each <<kind, size sent, required verdict, required size>>;
                            \* <<requirement's verdict, implementation's verdict>> of the latest call
vars == <<rSize, hdrFmt, picFmt, hist, outcome>>
Init == rSize = NoSize /\ hdrFmt = NoSize /\ picFmt = NoSize /\ hist = <<>> /\ outcome = <<"init", "init">>

(* requirement: <<"ok", size>> or <<"err", NoSize>> *)
Required(kind, sent) ==
    IF sent # NoSize
    THEN IF kind = "I" \/ sent = rSize THEN <<"ok", sent>> ELSE <<"err", NoSize>>
    ELSE IF kind = "P" /\ rSize # NoSize THEN <<"ok", rSize>> ELSE <<"err", NoSize>>
(* implementation: header parse (resampling rule), format resolution, prediction needs a reference of that size *)
Resample(kind, sent) == /\ (Design = "rprp-any" \/ kind # "I")
                        /\ sent # NoSize /\ hdrFmt # NoSize /\ hdrFmt # sent
Resolved(kind, sent) == IF sent # NoSize THEN sent
                        ELSE IF kind = "I" \/ picFmt = NoSize THEN NoSize
                        ELSE IF Design = "from-header" THEN hdrFmt ELSE picFmt
Implemented(kind, sent) ==
    IF Resample(kind, sent) THEN <<"err", NoSize>>
    ELSE LET f == Resolved(kind, sent) IN
         IF f = NoSize THEN <<"err", NoSize>>
         ELSE IF kind = "P" /\ f # picFmt THEN <<"err", NoSize>>     \* no reference of that size
         ELSE <<"ok", f>>
Decode(kind, sent) ==
    LET r == Required(kind, sent)  i == Implemented(kind, sent) IN
    /\ hist' = Append(hist, <<kind, sent, r[1], r[2]>>) /\ outcome' = <<r, i>>
    /\ rSize' = (IF r[1] = "ok" THEN r[2] ELSE rSize)
    /\ IF i[1] = "ok" THEN picFmt' = i[2] /\ hdrFmt' = sent ELSE UNCHANGED <<picFmt, hdrFmt>>
Next == Len(hist) < MaxLen /\ \E k \in {"I", "P"} : \E s \in Sizes \cup {NoSize} : Decode(k, s)
Spec == Init /\ [][Next]_vars

(* the implementation decodes exactly the pictures the requirement accepts, at the required size *)
SizeInForce == outcome[1] = outcome[2] /\ picFmt = rSize
(* what C02 relies on: an intra picture that transmits its size is accepted wherever it stands *)
IntraAccepted == (hist # <<>> /\ hist[Len(hist)][1] = "I" /\ hist[Len(hist)][2] # NoSize) => outcome[2][1] = "ok"
=============================================================================
