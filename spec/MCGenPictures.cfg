SPECIFICATION Spec
CONSTANTS
  N = 2
  Kinds <- KindsDef
  Diffs <- DiffsDef
  Cbps <- CbpsDef
INVARIANT AllWellFormed
INVARIANT Export
CHECK_DEADLOCK FALSE
