----------------------------- MODULE MCPipeline -----------------------------
(* Pipeline lemma (C13): for every picture size the plane sizes prescribed by *)
(* the decoder specification (Recon!ChW, ChH) are exactly the sizes the       *)
(* colour converter (Yuv!PlanesOk) and the deblocking filter (length is a     *)
(* multiple of a width >= 1) require, and the output has w*h pixels.          *)
EXTENDS Recon, Yuv, Deblock
VARIABLES w, h
Init == w \in 1..64 /\ h \in 1..64
Next == UNCHANGED <<w, h>>
Spec == Init /\ [][Next]_<<w, h>>
Inv == /\ ChW(w) = ChromaW(w) /\ ChH(h) = ChromaH(h)
       /\ ChW(w) >= 1 /\ ChH(h) >= 1
       /\ (w * h) % w = 0 /\ (ChW(w) * ChH(h)) % ChW(w) = 0
       /\ PlanesOk(w, h, [k \in 1..(w * h) |-> 0], [k \in 1..(ChW(w) * ChH(h)) |-> 0], [k \in 1..(ChW(w) * ChH(h)) |-> 0])
       /\ Len(Convert(w, h, [k \in 1..(w * h) |-> 16], [k \in 1..(ChW(w) * ChH(h)) |-> 128], [k \in 1..(ChW(w) * ChH(h)) |-> 128])) = w * h
       /\ (h < 10 => Edges(h) = {}) /\ (w < 10 => Edges(w) = {})
=============================================================================
