---------------------------- MODULE EncodeHeaders ----------------------------
(* TLC turns abstract headers (field "hdr" of each command in file IN) into    *)
(* bytes: PictureHeader!SorBits / StdBits followed by the command's "tail"     *)
(* bytes (arbitrary data after the header, so that the position reached by the *)
(* parser is observable).                                                      *)
EXTENDS PictureHeader, Json, IOUtils
In == ndJsonDeserialize(IOEnv.IN)
PrevOpts(c) == IF "prevopts" \in DOMAIN c THEN {c.prevopts[i] : i \in 1..Len(c.prevopts)} ELSE {}
Bits(c) == IF c.hdr.k = "sor" THEN SorBits(c.hdr) ELSE StdBits(c.hdr, PrevOpts(c), c.scal)
Enc(c) == IF "hdr" \notin DOMAIN c THEN c
          ELSE [bytes |-> BytesOfBits(Bits(c) \o BitsOfBytes(c.tail)), hbits |-> Len(Bits(c))] @@ c
VARIABLE n
Init == n = 0
Next == n = 0 /\ ndJsonSerialize(IOEnv.OUT, [i \in 1..Len(In) |-> Enc(In[i])]) /\ n' = Len(In)
Spec == Init /\ [][Next]_n
Done == n > 0 => PrintT("ENCODED " \o ToString(n))
=============================================================================
