------------------------------ MODULE MCTables ------------------------------
(* Self-checks of the specification's own data (H263Tables, Recon), run by   *)
(* TLC.  One state per check group so that coverage reports them.            *)
EXTENDS Picture, BitReader
VARIABLE t
Groups == {"mcbpcI", "mcbpcP", "cbpy", "mvd", "tcoef", "zigzag", "cos", "dequant", "mv", "chroma", "median", "dc"}
Init == t \in Groups
Next == UNCHANGED t
Spec == Init /\ [][Next]_t

AsCodes(inv) == [i \in 1..Len(inv) |-> <<inv[i], -99>>]
IsCompleteCode(tbl, inv) == LET all == tbl \o AsCodes(inv) IN PrefixFree(all) /\ Complete(all)
ValuesDistinct(tbl) == \A i \in 1..Len(tbl) : \A j \in 1..Len(tbl) : i # j => tbl[i][2] # tbl[j][2]
(* multiplication of two 2^26-scaled numbers with 13-bit limbs: round(a*b / 2^26) within 2 units *)
Mul26(a, b) == LET ah == a \div 8192  al == a % 8192  bh == b \div 8192  bl == b % 8192
               IN  ah * bh + ((ah * bl + al * bh) \div 8192) + ((al * bl) \div 67108864)
Check ==
    CASE t = "mcbpcI" -> IsCompleteCode(McbpcI, McbpcIInvalid) /\ ValuesDistinct(McbpcI) /\ Len(McbpcI) = 9
      [] t = "mcbpcP" -> IsCompleteCode(McbpcP, McbpcPInvalid) /\ ValuesDistinct(McbpcP) /\ Len(McbpcP) = 25
      [] t = "cbpy"   -> IsCompleteCode(Cbpy, CbpyInvalid) /\ ValuesDistinct(Cbpy) /\ {Cbpy[i][2] : i \in 1..16} = 0..15
      [] t = "mvd"    -> IsCompleteCode(Mvd, MvdInvalid) /\ ValuesDistinct(Mvd) /\ {Mvd[i][2] : i \in 1..Len(Mvd)} = -32..31
      [] t = "tcoef"  -> /\ IsCompleteCode(Tcoef, TcoefInvalid) /\ ValuesDistinct(Tcoef) /\ Len(Tcoef) = 103
                         /\ \A i \in 1..102 : Tcoef[i][2][1] \in {0, 1} /\ Tcoef[i][2][2] \in 0..40 /\ Tcoef[i][2][3] \in 1..12
                         \* no code word (nor ESCAPE) can imitate a start code: at most 8 leading and trailing zeros
                         /\ \A i \in 1..103 : \E j \in 1..Min2(9, Len(Tcoef[i][1])) : Tcoef[i][1][j] = 1
      [] t = "zigzag" -> /\ Len(ZigZag) = 64 /\ {ZigZag[k] : k \in 1..64} = (0..7) \X (0..7)
                         /\ \A k \in 1..63 : Abs((ZigZag[k + 1][1] + ZigZag[k + 1][2]) - (ZigZag[k][1] + ZigZag[k][2])) <= 1
      [] t = "cos"    -> \* Cos26 is the table of cos(j pi/16): Chebyshev recurrence from cos(pi/16), end points, 2 cos^2(pi/4) = 1
                         /\ Cos26[1] = 67108864 /\ Cos26[9] = 0
                         /\ \A j \in 2..8 : Abs(2 * Mul26(Cos26[2], Cos26[j]) - Cos26[j - 1] - Cos26[j + 1]) <= 10
                         /\ Abs(2 * Mul26(Cos26[5], Cos26[5]) - 67108864) <= 10
                         /\ \A j \in 1..8 : Cos26[j] > Cos26[j + 1]
                         \* orthogonality of the basis at 13-bit precision: sum_x K(u,x) K(v,x) = [u = v]
                         /\ \A u \in 1..8 : \A v \in 1..8 :
                              LET s == SumSeq([x \in 1..8 |-> KH[u][x] * KH[v][x]]) IN
                              Abs(s - (IF u = v THEN 268435456 ELSE 0)) <= 200000
      [] t = "dequant" -> \A q \in 1..31 : \A L \in 1..1023 :
                            LET r == Dequant(q, L) IN
                            /\ r = Min2(2047, IF q % 2 = 1 THEN q * (2 * L + 1) ELSE q * (2 * L + 1) - 1)
                            /\ Dequant(q, -L) = -r \/ (r = 2047 /\ Dequant(q, -L) \in {-2047, -2048})
                            /\ (r < 2047 => r % 2 = 1)                      \* odd before saturation
                            /\ (L > 1 => r >= Dequant(q, L - 1))             \* monotone
                            /\ \A dq \in {-2, -1, 1, 2} : QuantUpdate(q, dq) \in 1..31 /\ Abs(QuantUpdate(q, dq) - q) <= 2
      [] t = "mv"     -> \A p \in -32..31 : \A d \in -32..31 :
                            /\ WrapMv(p, d) \in -32..31 /\ (WrapMv(p, d) - p - d) % 64 = 0
                            /\ WrapMvByInversion(p, d) = WrapMv(p, d)
      [] t = "chroma" -> \A s \in -128..124 : ChromaMv(-s) = -ChromaMv(s) /\ Abs(8 * ChromaMv(s) - s) <= 5
                                              /\ (s % 16 = 0 => ChromaMv(s) = s \div 8)
      [] t = "median" -> \A a \in -3..3 : \A b \in -3..3 : \A c \in -3..3 :
                            LET m == Median3(a, b, c) IN
                            /\ m \in {a, b, c}
                            /\ Cardinality({x \in {1, 2, 3} : <<a, b, c>>[x] <= m}) >= 2
                            /\ Cardinality({x \in {1, 2, 3} : <<a, b, c>>[x] >= m}) >= 2
      [] t = "dc"     -> \A c \in 1..255 : IntraDcValid(c) => (IntraDcLevel(c) = (IF c = 255 THEN 1024 ELSE 8 * c) /\ IntraDcLevel(c) \in 8..2032)
Inv == Check
=============================================================================
