SPECIFICATION Spec
CONSTANTS
  TRs = {0, 1, 128, 255}
  MaxLen = 9
  Design = "current"
  AllowCollision = TRUE
INVARIANT Inv
PROPERTY FailureIsNoOp
VIEW view
CHECK_DEADLOCK FALSE
