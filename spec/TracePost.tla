------------------------------ MODULE TracePost ------------------------------
(* C13: every decoded picture can be deblocked and converted.  Validates the  *)
(* "post" events of a decoder trace: the planes of the last decoded picture   *)
(* are deblocked with the strength tabulated for the picture's quantizer and  *)
(* converted to RGBA by the real code; the specification composes Deblock.tla *)
(* and Yuv.tla.  Other events of the trace are validated by TraceDecoder.     *)
EXTENDS Deblock, Yuv, Json, IOUtils, SequencesExt
Rec == ndJsonDeserialize(IOEnv.TRACE)
VARIABLES l, phase, py, pcb, pcr
vars == <<l, phase, py, pcb, pcr>>
E == Rec[l]
Has(f) == f \in DOMAIN E
Diag(cls, what, sig, detail) ==
    PrintT("DIAG " \o ToJson([l |-> l, cls |-> cls, what |-> what, sig |-> sig, detail |-> detail]))
Skip == l' = l + 1 /\ phase' = 0 /\ py' = <<>> /\ pcb' = <<>> /\ pcr' = <<>>
W == E.w
(* "ph": the height the picture's format declares; "lens" events (very large pictures) carry lengths instead of planes *)
YL == IF Has("y") THEN Len(E.y) ELSE E.ylen
CbL == IF Has("cb") THEN Len(E.cb) ELSE E.cblen
CrL == IF Has("cr") THEN Len(E.cr) ELSE E.crlen
H == IF Has("ph") THEN E.ph ELSE IF W > 0 THEN YL \div W ELSE 0
CW == ChromaW(W)
CH == ChromaH(H)
(* Pipeline lemma instance: the planes satisfy what deblock() and yuv420_to_rgba() require *)
ShapesOk == /\ W >= 1 /\ H >= 1 /\ YL = W * H
            /\ E.cw = CW /\ CbL = CW * CH /\ CrL = CW * CH
Other == phase = 0 /\ E.op # "post" /\ Skip
Start ==
    /\ phase = 0 /\ E.op = "post"
    /\ IF E.rc = "panic"
       THEN Diag("IMPL", "post-processing-no-return", "post-processing-panic", [ret |-> E.ret]) /\ Skip
       ELSE IF E.rc # "ok" THEN Diag("HARNESS", "post-failed", "harness", E.ret) /\ Skip
       ELSE IF ~ShapesOk
       THEN Diag("IMPL", "plane-shapes", "decoded-plane-shapes", [w |-> W, h |-> H, ylen |-> YL, cw |-> E.cw, clen |-> CbL]) /\ Skip
       ELSE IF E.q \notin 1..31 \/ E.s # TableJ2[E.q]
       THEN Diag("IMPL", "strength-for-quantizer", "strength-table", [q |-> E.q, s |-> E.s]) /\ Skip
       ELSE IF E.len # 4 * W * H \/ (Has("out") /\ Len(E.out) # W * H)
       THEN Diag("IMPL", "rgba-length", "rgba-length", [w |-> W, h |-> H, len |-> E.len]) /\ Skip
       ELSE IF ~Has("full") \/ ~Has("out") THEN Skip
       ELSE /\ py' = HPass(E.y, W, H, E.s) /\ pcb' = HPass(E.cb, CW, CH, E.s) /\ pcr' = HPass(E.cr, CW, CH, E.s)
            /\ phase' = 1 /\ l' = l
Vertical ==
    /\ phase = 1
    /\ py' = VPass(py, W, H, E.s) /\ pcb' = VPass(pcb, CW, CH, E.s) /\ pcr' = VPass(pcr, CW, CH, E.s)
    /\ phase' = 2 /\ l' = l
Compare ==
    /\ phase = 2
    /\ LET exp == Convert(W, H, py, pcb, pcr)
           k == SelectInSeq([j \in 1..(W * H) |-> E.out[j] # exp[j]], LAMBDA b : b)
       IN  IF k = 0 THEN TRUE
           ELSE Diag("IMPL", "pipeline-pixel", "pipeline-pixel",
                     [w |-> W, h |-> H, x |-> (k - 1) % W, y |-> (k - 1) \div W, got |-> E.out[k], expected |-> exp[k]])
    /\ Skip
Init == l = 1 /\ phase = 0 /\ py = <<>> /\ pcb = <<>> /\ pcr = <<>>
Next == l <= Len(Rec) /\ (Other \/ Start \/ Vertical \/ Compare)
Spec == Init /\ [][Next]_vars
Done == l = Len(Rec) + 1 => PrintT("CONSUMED " \o ToString(l - 1) \o " OF " \o ToString(Len(Rec)))
=============================================================================
