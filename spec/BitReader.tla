----------------------------- MODULE BitReader -----------------------------
(***************************************************************************)
(* The bit reader (property C14, and the substrate of every parser          *)
(* module).  State machine with one action per public call of               *)
(* parser::H263Reader; the linearization point of each action is the        *)
(* call's return.                                                           *)
(*                                                                         *)
(* Abstract state                                                          *)
(*   src    the bytes the source will eventually deliver                    *)
(*   avail  how many of them it delivers now (grows with Append)            *)
(*   pos    number of bits consumed so far (absolute bit position)          *)
(*   stack  open transactions / look-aheads: <<kind, checkpoint, q>>        *)
(*   base   number of whole bytes dropped by CommitBuffer                   *)
(*                                                                         *)
(* Every operation is described by a pure operator returning               *)
(* [res |-> result, pos |-> new position]; the actions of the MC module     *)
(* and of the trace module are built from these operators (one source of    *)
(* truth).  Results: [r |-> "ok", v |-> value] | [r |-> "eof"] |            *)
(* [r |-> "badwidth"] | [r |-> "none"] (start code not found).              *)
(***************************************************************************)
EXTENDS Util, FiniteSets

Ok(v)    == [r |-> "ok", v |-> v]
Eof      == [r |-> "eof", v |-> 0]
BadWidth == [r |-> "badwidth", v |-> 0]
NoneR    == [r |-> "none", v |-> 0]
Out(res, p) == [res |-> res, pos |-> p]

(* bit k (1-based) of the source *)
SrcBit(src, k) == (src[((k - 1) \div 8) + 1] \div Pow2(7 - ((k - 1) % 8))) % 2
RECURSIVE ValAt(_, _, _, _)
ValAt(src, from, n, acc) == IF n = 0 THEN acc ELSE ValAt(src, from + 1, n - 1, 2 * acc + SrcBit(src, from))
(* unsigned value of the n bits following position p; n <= 30 to stay in TLC's integers *)
Val(src, p, n) == ValAt(src, p + 1, n, 0)
Remaining(avail, p) == 8 * avail - p

(* ---- fixed-width operations.  width = bit width of the result type ---- *)
(* Values wider than 30 bits are represented as <<hi, lo>> with lo = low 16 bits. *)
Wide(src, p, n) == IF n <= 16 THEN <<0, Val(src, p, n)>> ELSE <<Val(src, p, n - 16), Val(src, p + n - 16, 16)>>
Peek(src, avail, p, n, width) ==
    IF n > width THEN Out(BadWidth, p)
    ELSE IF n = 0 THEN Out(Ok(<<0, 0>>), p)
    ELSE IF Remaining(avail, p) < n THEN Out(Eof, p)
    ELSE Out(Ok(Wide(src, p, n)), p)
Read(src, avail, p, n, width) ==
    LET o == Peek(src, avail, p, n, width) IN
    IF o.res.r = "ok" THEN Out(o.res, p + n) ELSE o
Skip(src, avail, p, n) ==
    IF Remaining(avail, p) < n THEN Out(Eof, p) ELSE Out(Ok(<<0, 0>>), p + n)
(* two's complement value of n bits, as a signed integer; n = 0 reads nothing and yields 0 *)
SignedVal(src, p, n) ==
    IF n = 0 THEN 0
    ELSE IF n <= 30 THEN SignExtend(Val(src, p, n), n)
    ELSE (* n in 31..32: split off the sign bit *)
         LET s == SrcBit(src, p + 1) rest == Val(src, p + 1, n - 1) IN
         IF s = 0 THEN rest ELSE rest - Pow2(n - 2) - Pow2(n - 2)
PeekSigned(src, avail, p, n, width) ==
    IF n > width THEN Out(BadWidth, p)
    ELSE IF n = 0 THEN Out(Ok(0), p)
    ELSE IF Remaining(avail, p) < n THEN Out(Eof, p)
    ELSE Out(Ok(SignedVal(src, p, n)), p)
ReadSigned(src, avail, p, n, width) ==
    LET o == PeekSigned(src, avail, p, n, width) IN
    IF o.res.r = "ok" THEN Out(o.res, p + n) ELSE o

(* ---- variable-length codes.  A table is a sequence of <<bits, value>>, prefix-free. ---- *)
IsPrefixAt(src, avail, p, code) ==
    /\ Remaining(avail, p) >= Len(code)
    /\ \A j \in 1..Len(code) : SrcBit(src, p + j) = code[j]
PrefixFree(tbl) == \A i \in 1..Len(tbl) : \A j \in 1..Len(tbl) :
    i # j => ~(Len(tbl[i][1]) <= Len(tbl[j][1]) /\ SubSeq(tbl[j][1], 1, Len(tbl[i][1])) = tbl[i][1])
(* Kraft sum = 1 : every infinite bit string starts with exactly one code *)
MaxLen(tbl) == CHOOSE m \in {Len(tbl[i][1]) : i \in 1..Len(tbl)} : \A i \in 1..Len(tbl) : Len(tbl[i][1]) <= m
RECURSIVE KraftR(_, _, _)
KraftR(tbl, i, m) == IF i > Len(tbl) THEN 0 ELSE Pow2(m - Len(tbl[i][1])) + KraftR(tbl, i + 1, m)
Complete(tbl) == KraftR(tbl, 1, MaxLen(tbl)) = Pow2(MaxLen(tbl))
Matches(src, avail, p, tbl) == {i \in 1..Len(tbl) : IsPrefixAt(src, avail, p, tbl[i][1])}
(* For a complete prefix-free table either exactly one code matches, or the  *)
(* source ends inside every candidate: end of data, position undefined (the  *)
(* documented contract), modelled as "anywhere between p and the end".       *)
Vlc(src, avail, p, tbl) ==
    LET m == Matches(src, avail, p, tbl) IN
    IF m # {} THEN LET i == CHOOSE i \in m : TRUE IN Out(Ok(tbl[i][2]), p + Len(tbl[i][1]))
    ELSE Out(Eof, -1)                                   \* -1 : position undefined

(* ---- Table D.3 unrestricted motion vector code (growth beyond C14) ---- *)
(* "1" = 0; otherwise 0 x1 1 x2 1 ... xn s 0 : value = +-(1 x1..xn), n <= 11 *)
RECURSIVE UmvR(_, _, _, _, _)
UmvR(src, avail, p, mant, bulk) ==
    IF bulk >= 4096 THEN Out([r |-> "invalid", v |-> 0], -1)
    ELSE IF Remaining(avail, p) < 2 THEN Out(Eof, -1)
    ELSE LET two == Val(src, p, 2) IN
         IF two = 0 THEN Out(Ok(mant + bulk), p + 2)
         ELSE IF two = 2 THEN Out(Ok(-(mant + bulk)), p + 2)
         ELSE UmvR(src, avail, p + 2, 2 * mant + (IF two = 3 THEN 1 ELSE 0), 2 * bulk)
Umv(src, avail, p) ==
    IF Remaining(avail, p) < 1 THEN Out(Eof, -1)
    ELSE IF SrcBit(src, p + 1) = 1 THEN Out(Ok(0), p + 1)
    ELSE UmvR(src, avail, p + 1, 0, 1)

(* ---- start codes: sixteen zero bits followed by a one ---- *)
IsStartCodeAt(src, avail, p) ==       \* the 17 bits following position p
    /\ Remaining(avail, p) >= 17
    /\ \A j \in 1..16 : SrcBit(src, p + j) = 0
    /\ SrcBit(src, p + 17) = 1
Realign(p) == (8 - (p % 8)) % 8
RECURSIVE NearestFrom(_, _, _, _)
NearestFrom(src, avail, p, k) ==      \* least k' >= k with a complete start code at p + k', or -1
    IF Remaining(avail, p + k) < 17 THEN -1
    ELSE IF IsStartCodeAt(src, avail, p + k) THEN k ELSE NearestFrom(src, avail, p, k + 1)
Nearest(src, avail, p) == NearestFrom(src, avail, p, 0)
(* The set of results the specification allows for recognize_start_code.     *)
(* Sound: Some(k) only for the nearest start code, and k <= 8 unless inError.*)
(* Complete: a start code within the bits needed to re-align must be found.  *)
(* Between that and 8 either answer is allowed; end of data may be reported  *)
(* only when no start code within the re-alignment distance is available and *)
(* the source ends within the look-ahead window (17 + 8 + 1 bits).           *)
StartCodeAllowed(src, avail, p, inError) ==
    LET k == Nearest(src, avail, p) IN
    IF inError
    THEN IF k >= 0 THEN {Ok(k)} ELSE {Eof}
    ELSE (IF k >= 0 /\ k <= 8 THEN {Ok(k)} ELSE {})
         \cup (IF k < 0 \/ k > Realign(p) THEN {NoneR} ELSE {})
         \cup (IF (k < 0 \/ k > Realign(p)) /\ Remaining(avail, p) < 26 THEN {Eof} ELSE {})

(* ---- transactions ---- *)
(* kinds: "txn" (with_transaction), "union" (with_transaction_union), "look" (with_lookahead) *)
RollsBack(kind, outcome) == kind = "look" \/ outcome = "err" \/ (kind = "union" /\ outcome = "none")
EndPos(kind, outcome, checkpoint, p) == IF RollsBack(kind, outcome) THEN checkpoint ELSE p
=============================================================================
