----------------------------- MODULE MCDeblock -----------------------------
(* Lemmas on Deblock.tla checked by TLC.                                    *)
(*  (1) kernel: over a stratified set V of sample values (V^4 x 12          *)
(*      strengths): outputs stay in 0..255 (so the unclipped A1/D1 are      *)
(*      bytes), direction symmetry, inversion symmetry, identity on         *)
(*      constant and on X Y Y X patterns, |change| bounds.                  *)
(*  (2) schedule: for every size, edge quadruples of one pass are disjoint, *)
(*      the untouched set is exactly the samples more than two away from an *)
(*      interior edge, sizes with fewer than 10 columns (2 rows...) have no *)
(*      edge in that direction.                                             *)
EXTENDS Deblock, IOUtils, FiniteSets
SH  == atoi(IOEnv.SHARD)
NSH == atoi(IOEnv.NSHARDS)
V == {0, 1, 2, 3, 4, 7, 8, 9, 15, 16, 17, 31, 32, 63, 64, 100, 127, 128, 129, 191, 200, 247, 251, 252, 253, 254, 255}
VARIABLES a, b
Init == a \in V /\ b \in V /\ (a + 3 * b) % NSH = SH
Next == UNCHANGED <<a, b>>
Spec == Init /\ [][Next]_<<a, b>>
Rev(q) == <<q[4], q[3], q[2], q[1]>>
Neg(q) == <<255 - q[1], 255 - q[2], 255 - q[3], 255 - q[4]>>
KernelLemmas ==
    \A c \in V : \A d \in V : \A s \in 1..12 :
        LET k == Kernel(a, b, c, d, s) IN
        /\ \A i \in 1..4 : k[i] \in 0..255
        /\ Kernel(d, c, b, a, s) = Rev(k)
        /\ Kernel(255 - a, 255 - b, 255 - c, 255 - d, s) = Neg(k)
        /\ (a = d /\ b = c) => k = <<a, b, c, d>>
        /\ Abs(k[2] - b) <= s /\ Abs(k[3] - c) <= s /\ Abs(k[1] - a) <= s \div 2 /\ Abs(k[4] - d) <= s \div 2
        /\ k[1] - a = -(k[4] - d)
SizeLemmas ==   \* evaluated once (shard 0, first state): all sizes up to 48
    (SH = 0 /\ a = 0 /\ b = 0) =>
    \A n \in 0..48 :
        /\ (n < 10 => Edges(n) = {})
        /\ \A e \in Edges(n) : e - 2 >= 0 /\ e + 1 <= n - 1
        /\ \A c \in 0..(n - 1) :
              LET q == QuadOf(c, n) IN
              /\ (q[1] >= 0) <=> (\E e \in Edges(n) : c \in (e - 2)..(e + 1))
              /\ q[1] >= 0 => (q[1] \in Edges(n) /\ c = q[1] - 3 + q[2])
        /\ \A e1 \in Edges(n) : \A e2 \in Edges(n) : e1 # e2 => ((e1 - 2)..(e1 + 1)) \cap ((e2 - 2)..(e2 + 1)) = {}
TableLemma == Len(TableJ2) = 31 /\ \A q \in 1..30 : TableJ2[q + 1] - TableJ2[q] \in {0, 1}
Inv == KernelLemmas /\ SizeLemmas /\ TableLemma
=============================================================================
