SPECIFICATION Spec
CONSTANTS Sizes = {1, 2}
  MaxLen = 6
  Design = "current"
INVARIANT SizeInForce
INVARIANT IntraAccepted
CHECK_DEADLOCK FALSE
