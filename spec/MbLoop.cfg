SPECIFICATION Spec
CONSTANTS
  Total = 3
  Bits = 24
  Bounded = TRUE
INVARIANT BitsNeverNegative
INVARIANT NeverPastThePicture
PROPERTY MeasureDecreases
PROPERTY Returns
CHECK_DEADLOCK FALSE
