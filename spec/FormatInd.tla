---------------------------- MODULE FormatInd ----------------------------
(* Typed restatement of Format.tla, design "current", for Apalache: an inductive      *)
(* invariant shows SizeInForce for standard-mode histories of ANY length (the bounded  *)
(* TLC runs of MCFormat cover length <= 6).  Sizes are only ever compared for equality *)
(* and a step involves at most three of them (the size in force, the header's, the one *)
(* sent), so four distinct sizes are as good as any number (data independence).        *)
EXTENDS Integers, Apalache

VARIABLES
  \* @type: Int;
  rSize,
  \* @type: Int;
  hdrFmt,
  \* @type: Int;
  picFmt,
  \* @type: Bool;
  agreed       \* the latest call: the implementation's verdict and size equal the requirement's

NoSize == 0
Sizes == 1..4
Kinds == {"I", "P"}

Init == rSize = NoSize /\ hdrFmt = NoSize /\ picFmt = NoSize /\ agreed = TRUE

\* requirement: verdict and size of a call (size NoSize = rejected)
\* @type: (Str, Int) => Int;
Required(kind, sent) ==
  IF sent /= NoSize
  THEN (IF kind = "I" \/ sent = rSize THEN sent ELSE NoSize)
  ELSE (IF kind = "P" /\ rSize /= NoSize THEN rSize ELSE NoSize)
\* implementation-shaped layer (parser/picture.rs resampling rule, state.rs format resolution, gather reference size)
\* @type: (Str, Int) => Bool;
Resample(kind, sent) == kind /= "I" /\ sent /= NoSize /\ hdrFmt /= NoSize /\ hdrFmt /= sent
\* @type: (Str, Int) => Int;
Resolved(kind, sent) == IF sent /= NoSize THEN sent ELSE IF kind = "I" \/ picFmt = NoSize THEN NoSize ELSE picFmt
\* @type: (Str, Int) => Int;
Implemented(kind, sent) ==
  IF Resample(kind, sent) THEN NoSize
  ELSE LET f == Resolved(kind, sent) IN
       IF f = NoSize THEN NoSize ELSE IF kind = "P" /\ f /= picFmt THEN NoSize ELSE f

Decode(kind, sent) ==
  LET r == Required(kind, sent)
      i == Implemented(kind, sent)
  IN /\ agreed' = (r = i)
     /\ rSize' = (IF r /= NoSize THEN r ELSE rSize)
     /\ IF i /= NoSize THEN picFmt' = i /\ hdrFmt' = sent ELSE UNCHANGED <<picFmt, hdrFmt>>
Next == \E k \in Kinds : \E s \in Sizes \union {NoSize} : Decode(k, s)

\* the property (Format!SizeInForce)
SizeInForce == agreed /\ picFmt = rSize
\* inductive strengthening: the header's format, when it was sent, is the format the picture was decoded with
TypeOK ==
  /\ rSize \in Sizes \union {NoSize} /\ picFmt \in Sizes \union {NoSize} /\ hdrFmt \in Sizes \union {NoSize}
  /\ (hdrFmt /= NoSize => hdrFmt = picFmt)
IndInv == TypeOK /\ SizeInForce
IndInit == rSize = Gen(1) /\ hdrFmt = Gen(1) /\ picFmt = Gen(1) /\ agreed = Gen(1) /\ IndInv
\* sanity: IndInit is satisfiable with a picture present (Apalache must find a state violating this)
NotVacuous == picFmt = NoSize
=============================================================================
