----------------------------- MODULE MCDecoder -----------------------------
EXTENDS Decoder, Json
Export == (Len(hist) = MaxLen) => PrintT("GEN " \o ToJson([ops |-> hist]))
view == <<rLast, rRef, last, ref, store, disp, n, lastOutcome, Len(hist)>>
=============================================================================
