SPECIFICATION Spec
CONSTANTS Sizes = {1, 2}
  MaxLen = 6
  Design = "from-header"
INVARIANT SizeInForce
INVARIANT IntraAccepted
CHECK_DEADLOCK FALSE
