---------------------------- MODULE TraceDecoder ----------------------------
(***************************************************************************)
(* Trace validation of decoder histories (C01-C05, C10-C13, C15, C17).     *)
(* One trace = the history of ONE decoder instance: new / decode / cleanup *)
(* / newreader events.  The specification's decoder state is the           *)
(* requirement-level one: the most recent picture and the reference        *)
(* picture (as pictures, not as temporal references), plus the reader      *)
(* position.  A decode call is replayed as the stages of H.263 decoding:   *)
(*   Start   - syntax: the bytes fed are the encoding of the abstract      *)
(*             picture; expected outcome                                   *)
(*   Parse   - quantizers, motion vectors (6.1.1), dequantised             *)
(*             coefficients in zig-zag order (6.2.1)                       *)
(*   Pass1/2 - ideal IDCT rows, columns -> allowed residual range          *)
(*   Compare - prediction (6.1.2) + residual, clip; compare every sample   *)
(*             of the three planes; update last / reference picture        *)
(* Stage results are state variables: each is evaluated once.              *)
(***************************************************************************)
EXTENDS Picture, Json, IOUtils, SequencesExt, FiniteSets
Rec == ndJsonDeserialize(IOEnv.TRACE)

NoPic == [w |-> 0, h |-> 0, tr |-> -1, pt |-> "-", q |-> 0, db |-> 0, y |-> <<>>, cb |-> <<>>, cr |-> <<>>]
VARIABLES l, phase,
          lastPic, refPic,      \* requirement-level decoder state
          src, pos, posKnown,   \* bytes given to the current reader, bits consumed, is pos known
          pstart,               \* bit offset in the stream where the picture of the current decode call starts
          sor,                  \* decoder option: Sorenson mode
          dead,                 \* the decoder did not return from a call (reported): the rest of its history is void
          dcoll,                \* a disposable picture carrying the reference's temporal reference was decoded
          kinds, quants, mvs, coef, g, rng      \* stage results of the decode call being replayed
vars == <<l, phase, lastPic, refPic, src, pos, posKnown, pstart, sor, dead, dcoll, kinds, quants, mvs, coef, g, rng>>
E == Rec[l]
Has(f) == f \in DOMAIN E
Diag(cls, what, sig, detail) ==
    PrintT("DIAG " \o ToJson([l |-> l, cls |-> cls, what |-> what, sig |-> sig, detail |-> detail]))
Stat(k) == PrintT("DIAG " \o ToJson([l |-> l, cls |-> "STAT", what |-> "stat", sig |-> "stat", detail |-> k]))

ClearStages == kinds' = <<>> /\ quants' = <<>> /\ mvs' = <<>> /\ coef' = <<>> /\ g' = <<>> /\ rng' = <<>>
KeepStages == UNCHANGED <<kinds, quants, mvs, coef, g, rng>>
KeepDecoder == UNCHANGED <<lastPic, refPic, sor, dcoll, pstart, dead>>
NextLine == l' = l + 1 /\ phase' = 0 /\ ClearStages

(* ---------------------------------------------------------------- observations *)
(* TLC has no string slicing: the driver also reports the class of the outcome *)
RetClass == E.rc                                \* "ok" | "err" | "panic" | "timeout" | "died"
PicOf(e) == [w |-> e.w, h |-> e.h, tr |-> e.hdr.tr, pt |-> e.hdr.pt, q |-> e.hdr.q, db |-> e.hdr.db,
             y |-> IF "y" \in DOMAIN e THEN e.y ELSE <<>>, cb |-> IF "cb" \in DOMAIN e THEN e.cb ELSE <<>>,
             cr |-> IF "cr" \in DOMAIN e THEN e.cr ELSE <<>>]
YLen == IF Has("y") THEN Len(E.y) ELSE E.ylen
CLen == IF Has("cb") THEN Len(E.cb) ELSE E.clen
CrLen == IF Has("cr") THEN Len(E.cr) ELSE E.clen
ProbeAt(p) ==
    LET r == 8 * Len(src') - p IN
    IF r >= 24 THEN <<24, BitsAt(BitsOfBytes(SubSeq(src', (p \div 8) + 1, Min2((p \div 8) + 4, Len(src')))), (p % 8) + 1, 24)>>
    ELSE IF r >= 1 THEN LET wd == IF r >= 16 THEN 16 ELSE IF r >= 8 THEN 8 ELSE IF r >= 4 THEN 4 ELSE IF r >= 2 THEN 2 ELSE 1 IN
         <<wd, BitsAt(BitsOfBytes(SubSeq(src', (p \div 8) + 1, Len(src'))), (p % 8) + 1, wd)>>
    ELSE <<0, 0>>
(* reference-management observation exposed by the hook *)
ExpKeys(lp, rp) == {t \in {lp.tr, rp.tr} : t >= 0}
StateObsOk(lp, rp) ==       \* the store is pruned to the last and reference pictures and holds the reference
    /\ E.last = lp.tr /\ E.ref = rp.tr
    /\ {E.keys[i] : i \in 1..Len(E.keys)} \subseteq ExpKeys(lp, rp)
    /\ (rp.tr >= 0 => \E i \in 1..Len(E.keys) : E.keys[i] = rp.tr)
(* the planes reported for get_last_picture() equal lp *)
LastObsOk(lp) ==
    IF lp.w = 0 THEN E.has_last = FALSE
    ELSE /\ E.has_last /\ E.w = lp.w /\ E.h = lp.h
         /\ (Has("y") => (E.y = lp.y /\ E.cb = lp.cb /\ E.cr = lp.cr))
         /\ E.hdr.tr = lp.tr /\ E.hdr.pt = lp.pt /\ E.hdr.q = lp.q /\ E.hdr.db = lp.db

(* ---------------------------------------------------------------- new / cleanup / newreader *)
New ==
    /\ phase = 0 /\ E.op = "new"
    /\ IF E.ret = "ok" THEN TRUE ELSE Diag("HARNESS", "driver-op-failed", "harness", E.ret)
    /\ lastPic' = NoPic /\ refPic' = NoPic /\ src' = <<>> /\ pos' = 0 /\ posKnown' = TRUE /\ sor' = E.sor /\ dcoll' = FALSE /\ pstart' = 0 /\ dead' = FALSE
    /\ NextLine
NewReader ==
    /\ phase = 0 /\ E.op = "newreader" /\ ~dead
    /\ IF E.ret = "ok" THEN TRUE ELSE Diag("HARNESS", "driver-op-failed", "harness", E.ret)
    /\ src' = <<>> /\ pos' = 0 /\ posKnown' = TRUE /\ KeepDecoder /\ NextLine
AppendBytes ==      \* data arriving at the source without a decode call
    /\ phase = 0 /\ E.op = "append" /\ ~dead
    /\ IF E.ret = "ok" THEN TRUE ELSE Diag("HARNESS", "driver-op-failed", "harness", E.ret)
    /\ src' = src \o E.bytes /\ UNCHANGED <<pos, posKnown>> /\ KeepDecoder /\ NextLine
Cleanup ==
    /\ phase = 0 /\ E.op = "cleanup" /\ ~dead
    /\ src' = src
    /\ IF RetClass # "ok" THEN Diag("IMPL", "cleanup-outcome", "cleanup-no-return", E.ret)
       ELSE IF ~StateObsOk(lastPic, refPic) THEN Diag("IMPL", "cleanup-state", "cleanup-changes-reference-state",
                                                      [last |-> E.last, ref |-> E.ref, keys |-> E.keys, expLast |-> lastPic.tr, expRef |-> refPic.tr])
       ELSE IF ~LastObsOk(lastPic) THEN Diag("IMPL", "cleanup-last-picture", "cleanup-changes-last-picture", [tr |-> lastPic.tr])
       ELSE TRUE
    /\ UNCHANGED <<pos, posKnown>> /\ KeepDecoder /\ NextLine

(* ---------------------------------------------------------------- decode: start *)
HasPic == Has("pic") /\ ~Has("opaque")      \* "opaque": the bytes are not claimed to be a valid picture
PFull == E.pic
P == Effective(PFull)       \* standard-mode error concealment, see Picture!Concealed
D == Dims(P)
(* the picture's bytes start at the next byte boundary of the stream *)
PicStart == IF Has("pre") THEN 8 * CeilDiv(pos, 8) ELSE 8 * Len(src)
BytesInPlace == /\ (PicStart \div 8) + Len(E.bytes) <= Len(src')
                /\ SubSeq(src', (PicStart \div 8) + 1, (PicStart \div 8) + Len(E.bytes)) = E.bytes
(* a picture needs prediction if some macroblock is predicted, not coded, or missing (early end of data) *)
NeedsRef == \/ Len(RealMbs(P)) < NMb(P)
            \/ \E i \in 1..Len(P.mbs) : P.mbs[i].k = "skip" \/ (P.mbs[i].k = "mb" /\ ~IsIntraT(P.mbs[i].t))
(* a header that does not transmit the format (UFEP = 000) takes it from the most recent picture: there must be one *)
FormatKnown == ~Ufep0(P) \/ lastPic # NoPic
ExpectOk == FormatKnown /\ (P.pt = "I" \/ ~NeedsRef \/ (refPic.w = D[1] /\ refPic.h = D[2]))
(* after a rejected call nothing may have changed *)
UnchangedOk ==
    /\ StateObsOk(lastPic, refPic) /\ LastObsOk(lastPic)
    /\ (posKnown /\ Has("probe") => E.probe = ProbeAt(pos))
RejectedStep(sigPrefix) ==      \* validate "err" outcome: state unchanged; continue with the next line
    /\ IF ~StateObsOk(lastPic, refPic)
       THEN Diag("IMPL", "failed-decode-changed-state", sigPrefix \o "-changed-reference-state",
                 [ret |-> E.ret, last |-> E.last, ref |-> E.ref, keys |-> E.keys, expLast |-> lastPic.tr, expRef |-> refPic.tr])
       ELSE IF ~LastObsOk(lastPic)
       THEN Diag("IMPL", "failed-decode-changed-picture", sigPrefix \o "-changed-last-picture", [ret |-> E.ret])
       ELSE IF posKnown /\ Has("probe") /\ E.probe # ProbeAt(pos)
       THEN Diag("IMPL", "failed-decode-moved-reader", sigPrefix \o "-moved-reader",
                 [ret |-> E.ret, got |-> E.probe, expected |-> ProbeAt(pos), pos |-> pos])
       ELSE IF l > 1 /\ Has("ropt") /\ "ropt" \in DOMAIN Rec[l - 1] /\ E.ropt # Rec[l - 1].ropt
       THEN Diag("IMPL", "failed-decode-changed-options", sigPrefix \o "-changed-carried-options", [ret |-> E.ret, got |-> E.ropt])
       ELSE TRUE
    /\ UNCHANGED <<pos, posKnown>> /\ KeepDecoder /\ NextLine
DecodeStart ==
    /\ phase = 0 /\ E.op = "decode" /\ ~dead
    /\ src' = (IF Has("pre") \/ RetClass = "skip" THEN src ELSE src \o E.bytes)       \* "pre": the bytes were appended earlier;
                                                                                       \* a skipped call delivers nothing
    /\ IF RetClass = "skip"        \* outside the property's domain (declared size would not fit in memory): not executed
       THEN UNCHANGED <<pos, posKnown>> /\ KeepDecoder /\ NextLine
       ELSE IF RetClass \notin {"ok", "err"}
       THEN \* panic, abort, overflow trap, time-out: the call did not return a value (C01)
            /\ Diag("IMPL", "decode-no-return", "decode-no-return-" \o (IF Has("site") THEN E.site ELSE RetClass),
                    [ret |-> E.ret, mode |-> IF HasPic THEN "pixel" ELSE "opaque", why |-> IF Has("why") THEN E.why ELSE ""])
            /\ UNCHANGED <<pos, lastPic, refPic, sor, dcoll, pstart>> /\ posKnown' = FALSE /\ dead' = TRUE /\ NextLine
       ELSE IF ~HasPic
       THEN \* opaque input: any outcome is allowed, but it must be consistent
            IF RetClass = "err"
            THEN /\ IF Has("expect") /\ E.expect = "ok"
                    THEN Diag("IMPL", "rejected-valid-picture", "rejected-valid-" \o E.why, [ret |-> E.ret, why |-> E.why]) ELSE TRUE
                 /\ RejectedStep("opaque-err")
            ELSE /\ IF Has("expect") /\ E.expect = "err"
                    THEN Diag("IMPL", "accepted-invalid-input", "accepted-" \o E.why, [why |-> E.why])
                    ELSE IF ~(E.has_last /\ YLen = E.w * E.h /\ CLen = ChW(E.w) * ChH(E.h) /\ CrLen = CLen
                         /\ E.cspr = ChW(E.w) /\ E.last = E.hdr.tr /\ E.w >= 1 /\ E.h >= 1
                         \* an input known to be a valid picture must come out with exactly its header's size and fields
                         /\ ((Has("expect") /\ E.expect = "ok" /\ Has("pic")) =>
                                (E.w = Dims(E.pic)[1] /\ E.h = Dims(E.pic)[2] /\ E.hdr.tr = E.pic.tr /\ E.hdr.q = E.pic.q /\ E.hdr.pt = E.pic.pt)))
                    THEN Diag("IMPL", "decoded-picture-shape", "decoded-picture-shape", [w |-> E.w, h |-> E.h, ylen |-> YLen, clen |-> CLen, cspr |-> E.cspr])
                    ELSE LET np == PicOf(E)
                             nr == IF E.hdr.pt = "D" THEN refPic ELSE np IN
                         IF ~StateObsOk(np, nr)
                         THEN Diag("IMPL", "reference-state", "opaque-reference-state", [last |-> E.last, ref |-> E.ref, keys |-> E.keys, pt |-> E.hdr.pt, prevRef |-> refPic.tr])
                         ELSE TRUE
                 /\ lastPic' = PicOf(E) /\ refPic' = (IF E.hdr.pt = "D" THEN refPic ELSE PicOf(E))
                 /\ posKnown' = FALSE /\ UNCHANGED <<pos, sor, dcoll, pstart, dead>> /\ NextLine
       ELSE IF Has("pre") /\ ~posKnown
       THEN \* the stream position was lost by an earlier (reported) disagreement: nothing can be said about this call
            UNCHANGED <<pos, posKnown>> /\ KeepDecoder /\ NextLine
       ELSE IF ~WellFormed(P) THEN Diag("HARNESS", "abstract-picture-ill-formed", "harness", P.tr) /\ UNCHANGED <<pos, posKnown>> /\ KeepDecoder /\ NextLine
       ELSE IF BytesOfBits(PaddedBits(PFull)) # E.bytes \/ ~BytesInPlace
       THEN Diag("HARNESS", "bytes-are-not-the-encoding-of-the-abstract-picture", "harness", [tr |-> P.tr]) /\ UNCHANGED <<pos, posKnown>> /\ KeepDecoder /\ NextLine
       ELSE IF Ufep0(P) /\ lastPic # NoPic /\ (lastPic.w # D[1] \/ lastPic.h # D[2])
       THEN Diag("HARNESS", "ufep0-picture-must-have-the-size-of-the-picture-before-it", "harness", [tr |-> P.tr]) /\ UNCHANGED <<pos, posKnown>> /\ KeepDecoder /\ NextLine
       ELSE IF ~ExpectOk
       THEN \* a picture needing prediction without a (matching) reference must be rejected
            IF RetClass = "ok"
            THEN /\ Diag("IMPL", "accepted-predicted-picture-without-reference", "accepted-without-reference", [pt |-> P.pt, tr |-> P.tr, refw |-> refPic.w])
                 /\ lastPic' = PicOf(E) /\ refPic' = (IF P.pt = "D" THEN refPic ELSE PicOf(E))
                 /\ posKnown' = FALSE /\ UNCHANGED <<pos, sor, dcoll, pstart, dead>> /\ NextLine
            ELSE RejectedStep("no-reference")
       ELSE IF RetClass = "err"
       THEN /\ Diag("IMPL", "rejected-valid-picture",
                    "rejected-valid-" \o P.hk \o "-" \o P.pt \o "-picture",
                    [ret |-> E.ret, tr |-> P.tr, pt |-> P.pt, w |-> D[1], h |-> D[2]])
            /\ posKnown' = (IF Has("pre") THEN FALSE ELSE posKnown) /\ UNCHANGED pos /\ KeepDecoder /\ NextLine
       ELSE /\ phase' = 1 /\ l' = l /\ pstart' = PicStart /\ UNCHANGED <<pos, posKnown, lastPic, refPic, sor, dcoll, dead>> /\ KeepStages

(* ---------------------------------------------------------------- decode: stages *)
Real == RealMbs(P)
Parse ==
    /\ phase = 1
    /\ LET n == NMb(P)
           qs == Quants(P)
       IN /\ quants' = qs
          /\ kinds' = [i \in 1..n |-> MbKind(P, i - 1)]
          /\ mvs' = Mvs(P)
          /\ coef' = [j \in 1..(6 * n) |->
                        LET i == ((j - 1) \div 6) + 1
                            b == ((j - 1) % 6) + 1
                        IN  IF i <= Len(Real) /\ Real[i].k = "mb" THEN Coefs(Real[i].b[b], qs[i]) ELSE ZeroBlock]
    /\ phase' = 2 /\ UNCHANGED <<l, src, pos, posKnown, g, rng>> /\ KeepDecoder
Pass1Stage ==
    /\ phase = 2
    /\ g' = [j \in 1..Len(coef) |-> IF IsZeroBlock(coef[j]) THEN ZeroBlock ELSE Pass1(coef[j])]
    /\ phase' = 3 /\ UNCHANGED <<l, src, pos, posKnown, kinds, quants, mvs, coef, rng>> /\ KeepDecoder
Pass2Stage ==
    /\ phase = 3
    /\ rng' = [j \in 1..Len(coef) |-> IF IsZeroBlock(coef[j]) THEN ZeroRanges ELSE IdctRanges(g[j], SumAbs(coef[j]))]
    /\ phase' = 4 /\ UNCHANGED <<l, src, pos, posKnown, kinds, quants, mvs, coef, g>> /\ KeepDecoder

(* expected range of luma sample (x, y) / chroma sample (x, y) of plane c ("cb" | "cr") *)
W == D[1]
H == D[2]
MBW == MbW(W)
LumaRange(x, y) ==
    LET i == (y \div 16) * MBW + (x \div 16)
        b == ((y % 16) \div 8) * 2 + ((x % 16) \div 8)
        r == rng[i * 6 + b + 1][(y % 8) * 8 + (x % 8) + 1]
        p == IF kinds[i + 1] = "intra" THEN 0 ELSE PredSample(refPic.y, W, H, x, y, mvs[i + 1][b + 1])
    IN  <<Clamp(p + r[1], 0, 255), Clamp(p + r[2], 0, 255)>>
ChromaVec(i) == <<ChromaMv(mvs[i][1][1] + mvs[i][2][1] + mvs[i][3][1] + mvs[i][4][1]),
                  ChromaMv(mvs[i][1][2] + mvs[i][2][2] + mvs[i][3][2] + mvs[i][4][2])>>
ChromaRange(plane, b, x, y) ==
    LET i == (y \div 8) * MBW + (x \div 8)
        r == rng[i * 6 + b][(y % 8) * 8 + (x % 8) + 1]
        p == IF kinds[i + 1] = "intra" THEN 0 ELSE PredSample(plane, ChW(W), ChH(H), x, y, ChromaVec(i + 1))
    IN  <<Clamp(p + r[1], 0, 255), Clamp(p + r[2], 0, 255)>>
InRange(v, r) == v >= r[1] /\ v <= r[2]
BadLuma == SelectInSeq([k \in 1..(W * H) |-> ~InRange(E.y[k], LumaRange((k - 1) % W, (k - 1) \div W))], LAMBDA t : t)
BadCb == SelectInSeq([k \in 1..(ChW(W) * ChH(H)) |->
            ~InRange(E.cb[k], ChromaRange(refPic.cb, 5, (k - 1) % ChW(W), (k - 1) \div ChW(W)))], LAMBDA t : t)
BadCr == SelectInSeq([k \in 1..(ChW(W) * ChH(H)) |->
            ~InRange(E.cr[k], ChromaRange(refPic.cr, 6, (k - 1) % ChW(W), (k - 1) \div ChW(W)))], LAMBDA t : t)
SampleSig(i) == IF dcoll THEN "reference-overwritten-by-disposable-picture-with-same-tr"
                ELSE "recon-" \o P.pt \o "-picture-" \o kinds[i] \o "-macroblock"
NewRef(np) == IF P.pt = "D" THEN refPic ELSE np
Compare ==
    /\ phase = 4
    /\ src' = src /\ sor' = sor
    /\ LET np == PicOf(E)
           endPos == pstart + Len(PictureBits(P))
       IN
       /\ IF ~(E.has_last /\ E.w = W /\ E.h = H /\ Len(E.y) = W * H /\ Len(E.cb) = ChW(W) * ChH(H) /\ Len(E.cr) = ChW(W) * ChH(H) /\ E.cspr = ChW(W))
          THEN Diag("IMPL", "decoded-picture-shape", "decoded-picture-shape",
                    [w |-> E.w, h |-> E.h, expW |-> W, expH |-> H, ylen |-> Len(E.y), clen |-> Len(E.cb), cspr |-> E.cspr])
          ELSE IF ~(E.hdr.tr = P.tr /\ E.hdr.pt = P.pt /\ E.hdr.q = P.q /\ E.hdr.db = P.db)
          THEN Diag("IMPL", "decoded-picture-header", "decoded-picture-header", [got |-> E.hdr, tr |-> P.tr, pt |-> P.pt, q |-> P.q, db |-> P.db])
          ELSE IF BadLuma # 0
          THEN LET k == BadLuma  x == (k - 1) % W  y == (k - 1) \div W  i == (y \div 16) * MBW + (x \div 16) + 1 IN
               Diag("IMPL", "luma-sample", SampleSig(i),
                    [x |-> x, y |-> y, got |-> E.y[k], allowed |-> LumaRange(x, y), mb |-> i - 1, kind |-> kinds[i], mv |-> mvs[i],
                     q |-> IF i <= Len(quants) THEN quants[i] ELSE 0, tr |-> P.tr, w |-> W, h |-> H])
          ELSE IF BadCb # 0
          THEN LET k == BadCb  x == (k - 1) % ChW(W)  y == (k - 1) \div ChW(W)  i == (y \div 8) * MBW + (x \div 8) + 1 IN
               Diag("IMPL", "cb-sample", SampleSig(i),
                    [x |-> x, y |-> y, got |-> E.cb[k], allowed |-> ChromaRange(refPic.cb, 5, x, y), mb |-> i - 1, kind |-> kinds[i], mv |-> mvs[i], tr |-> P.tr, w |-> W, h |-> H])
          ELSE IF BadCr # 0
          THEN LET k == BadCr  x == (k - 1) % ChW(W)  y == (k - 1) \div ChW(W)  i == (y \div 8) * MBW + (x \div 8) + 1 IN
               Diag("IMPL", "cr-sample", SampleSig(i),
                    [x |-> x, y |-> y, got |-> E.cr[k], allowed |-> ChromaRange(refPic.cr, 6, x, y), mb |-> i - 1, kind |-> kinds[i], mv |-> mvs[i], tr |-> P.tr, w |-> W, h |-> H])
          ELSE IF ~StateObsOk(np, NewRef(np))
          THEN Diag("IMPL", "reference-state", "reference-state-after-" \o P.pt,
                    [last |-> E.last, ref |-> E.ref, keys |-> E.keys, tr |-> P.tr, prevRef |-> refPic.tr])
          ELSE IF Has("probe") /\ E.probe # ProbeAt(endPos)
          THEN Diag("IMPL", "reader-position-after-picture", "reader-not-at-end-of-picture-" \o P.hk,
                    [got |-> E.probe, expected |-> ProbeAt(endPos), endPos |-> endPos, tr |-> P.tr, following |-> 8 * Len(src) - endPos])
          ELSE TRUE
       \* adopt what the decoder really holds (tolerated +-1 differences must not snowball)
       /\ lastPic' = np /\ refPic' = NewRef(np)
       /\ dcoll' = (IF P.pt = "D" THEN (dcoll \/ P.tr = refPic.tr) ELSE FALSE)
       /\ pos' = endPos /\ posKnown' = TRUE /\ pstart' = pstart /\ dead' = dead
    /\ NextLine

PostOp == phase = 0 /\ ~dead /\ E.op \in {"post", "parse"} /\ UNCHANGED <<src, pos, posKnown>> /\ KeepDecoder /\ NextLine     \* validated by TracePost
(* C17: instances fed the same history must agree bit for bit (digests of every observation) *)
Replicas ==
    /\ phase = 0 /\ E.op = "replicas"
    /\ LET bad == {gi \in 1..Len(E.groups) : \E a \in 1..Len(E.groups[gi]) : E.groups[gi][a] # E.groups[gi][1]} IN
       IF bad = {} THEN TRUE
       ELSE Diag("IMPL", "replicas-differ", "replicas-differ", [mode |-> E.mode, group |-> CHOOSE gi \in bad : TRUE, n |-> Len(E.groups)])
    /\ UNCHANGED <<src, pos, posKnown>> /\ UNCHANGED <<lastPic, refPic, sor, dcoll, pstart>> /\ dead' = FALSE /\ NextLine
SkipDead == phase = 0 /\ dead /\ E.op # "replicas" /\ E.op # "new" /\ UNCHANGED <<src, pos, posKnown>> /\ KeepDecoder /\ NextLine
Unknown == phase = 0 /\ ~dead /\ E.op \notin {"new", "newreader", "append", "cleanup", "decode", "post", "parse", "replicas"} /\ Diag("HARNESS", "unknown-op", "harness", E.op)
           /\ UNCHANGED <<src, pos, posKnown>> /\ KeepDecoder /\ NextLine

Init == /\ l = 1 /\ phase = 0 /\ lastPic = NoPic /\ refPic = NoPic /\ src = <<>> /\ pos = 0 /\ posKnown = TRUE /\ pstart = 0
        /\ sor = TRUE /\ dcoll = FALSE /\ dead = FALSE
        /\ kinds = <<>> /\ quants = <<>> /\ mvs = <<>> /\ coef = <<>> /\ g = <<>> /\ rng = <<>>
Next == l <= Len(Rec) /\ (New \/ NewReader \/ AppendBytes \/ Cleanup \/ DecodeStart \/ Parse \/ Pass1Stage \/ Pass2Stage \/ Compare \/ PostOp \/ Replicas \/ SkipDead \/ Unknown)
Spec == Init /\ [][Next]_vars
Done == l = Len(Rec) + 1 => PrintT("CONSUMED " \o ToString(l - 1) \o " OF " \o ToString(Len(Rec)))
=============================================================================
