------------------------------ MODULE TraceYuv ------------------------------
(* Trace validation for the colour converter (C07, C08, part of C13).       *)
(* Every line of the trace is one call of the real bt601::yuv420_to_rgba    *)
(* recorded by the driver; this module recomputes the result with Yuv.tla.  *)
EXTENDS Yuv, Json, IOUtils, FiniteSets, SequencesExt
Rec == ndJsonDeserialize(IOEnv.TRACE)
VARIABLE l
Diag(cls, what, detail) ==
    PrintT("DIAG " \o ToJson([l |-> l, cls |-> cls, what |-> what, detail |-> detail]))
Has(e, f) == f \in DOMAIN e
MinOf(S) == CHOOSE m \in S : \A o \in S : m <= o

(* ---- op "yuv_sweep": w x 1 pictures (w = Len(ys), 1..8) y = ys, chroma sample j (0-based) = SwC(v, j) for all (cb, cr):  *)
(* ---- pixel k uses chroma sample (k-1) div 2; neighbouring chroma samples differ; over all (cb, cr) every pixel position  *)
(* ---- meets every chroma pair.  Widths that are not multiples of four also reach the conversion of left-over pixels. ---- *)
(* ---- with "same" all chroma samples of the row are equal (flat chroma: whole groups of neutral, or of any one, colour) ---- *)
SwC(v, j) == ((IF j % 2 = 0 THEN v ELSE 255 - v) + 64 * (j \div 2)) % 256
SweepOk(e) ==
    LET w == Len(e.ys)
        same == "same" \in DOMAIN e /\ e.same
        SwCb(i, k) == IF same THEN i \div 256 ELSE SwC(i \div 256, (k - 1) \div 2)
        SwCr(i, k) == IF same THEN i % 256 ELSE SwC(i % 256, (k - 1) \div 2)
    IN
    IF e.ret # "ok" THEN Diag("IMPL", "yuv-outcome", [ret |-> e.ret, ys |-> e.ys])
    ELSE IF w \notin 1..8 \/ Len(e.px) # 65536 * w THEN Diag("HARNESS", "sweep-length", Len(e.px))
    ELSE LET bad == {i \in 0..65535 : \E k \in 1..w :
                         e.px[w * i + k] # Pixel(e.ys[k], SwCb(i, k), SwCr(i, k))}
         IN  IF bad = {} THEN TRUE ELSE
                LET i == CHOOSE j \in bad : TRUE      \* any one of them (a minimum over a large set is quadratic in TLC)
                    k == MinOf({k \in 1..w : e.px[w * i + k] # Pixel(e.ys[k], SwCb(i, k), SwCr(i, k))})
                IN Diag("IMPL", "colour",
                        [y |-> e.ys[k], cb |-> SwCb(i, k), cr |-> SwCr(i, k), pixel |-> k, width |-> w, got |-> e.px[w * i + k],
                         expected |-> Pixel(e.ys[k], SwCb(i, k), SwCr(i, k)), count |-> Cardinality(bad)])

(* ---- op "yuv": one picture of any size ---- *)
PictureOk(e) ==
    LET w == e.w
        h == IF w = 0 THEN 0 ELSE Len(e.y) \div w
    IN  IF ~(w >= 0 /\ (w = 0 => Len(e.y) = 0) /\ PlanesOk(w, h, e.y, e.cb, e.cr))
        THEN Diag("HARNESS", "planes-precondition", [w |-> w, ylen |-> Len(e.y)])
        ELSE IF e.ret # "ok" THEN Diag("IMPL", "yuv-outcome", [ret |-> e.ret, w |-> w, h |-> h])
        ELSE IF e.len # 4 * w * h \/ Len(e.out) # w * h
             THEN Diag("IMPL", "yuv-length", [w |-> w, h |-> h, len |-> e.len])
        ELSE LET exp == Convert(w, h, e.y, e.cb, e.cr)
                 k == SelectInSeq([j \in 1..(w * h) |-> e.out[j] # exp[j]], LAMBDA b : b)
             IN  IF k = 0 THEN TRUE ELSE
                    Diag("IMPL", "pairing", [w |-> w, h |-> h, x |-> (k - 1) % w, y |-> (k - 1) \div w,
                                              got |-> e.out[k], expected |-> exp[k]])

Init == l = 1
Next == /\ l <= Len(Rec)
        /\ LET e == Rec[l] IN
             CASE e.op = "yuv_sweep" -> SweepOk(e)
               [] e.op = "yuv"       -> PictureOk(e)
               [] OTHER              -> Diag("HARNESS", "unknown-op", e.op)
        /\ l' = l + 1
Spec == Init /\ [][Next]_l
Consumed == PrintT("CONSUMED " \o ToString(TLCGet("stats").diameter - 1) \o " OF " \o ToString(Len(Rec)))
=============================================================================
