SPECIFICATION Spec
CONSTANTS
  Alphabet = {0, 1, 8, 128, 165, 255}
  MaxBytes = 5
  WidthsN = {0, 1, 2, 3, 7, 8, 9, 15, 16, 17, 24}
  MaxDepth = 3
  MaxOps = 14
INVARIANT Export
CHECK_DEADLOCK FALSE
