----------------------------- MODULE TraceParse -----------------------------
(* Parser-level trace validation (growth beyond the listed properties): the   *)
(* public parser::decode_picture / decode_macroblock / decode_block are run   *)
(* on their own over a TLC-encoded picture and what they return is compared,  *)
(* macroblock by macroblock and event by event, with the abstract picture     *)
(* (type, CBPC, CBPY, DQUANT, the differentials before prediction, INTRADC,   *)
(* (run, level) events and whether the short or the escape form was used).    *)
(* This localises a disagreement to the syntax layer, independently of the    *)
(* reconstruction checked by TraceDecoder.  Events of other kinds are skipped.*)
EXTENDS Picture, Json, IOUtils, SequencesExt
Rec == ndJsonDeserialize(IOEnv.TRACE)
VARIABLE l
E == Rec[l]
Diag(cls, what, sig, detail) ==
    PrintT("DIAG " \o ToJson([l |-> l, cls |-> cls, what |-> what, sig |-> sig, detail |-> detail]))
P == E.pic
G == E.parsed
ExpBlock(blk) == [dc |-> blk.dc, ev |-> [j \in 1..Len(blk.ev) |-> <<IF blk.ev[j][4] = 0 THEN 1 ELSE 0, blk.ev[j][2], blk.ev[j][3]>>]]
ExpMb(mb) ==
    IF mb.k # "mb" THEN [k |-> mb.k]
    ELSE [k |-> "mb", t |-> mb.t, cbpc |-> mb.cbpc, cbpy |-> mb.cbpy, dq |-> mb.dq, mvd |-> mb.mvd,
          b |-> [j \in 1..6 |-> ExpBlock(mb.b[j])]]
Same(g, x) ==
    IF x.k # "mb" THEN g.k = x.k
    ELSE /\ g.k = "mb" /\ g.t = x.t /\ g.cbpc = x.cbpc /\ g.cbpy = x.cbpy /\ g.dq = x.dq /\ g.mvd = x.mvd
         /\ Len(g.b) = 6 /\ \A j \in 1..6 : g.b[j].dc = x.b[j].dc /\ g.b[j].ev = x.b[j].ev
Check ==
    IF E.rc # "ok" THEN Diag("IMPL", "parser-no-return", "parser-no-return", E.ret)
    ELSE IF ~WellFormed(P) \/ BytesOfBits(PaddedBits(P)) # E.bytes THEN Diag("HARNESS", "parse-input", "harness", l)
    ELSE IF Len(G) # Len(P.mbs)
    THEN Diag("IMPL", "macroblock-count", "parser-macroblock-count", [got |-> Len(G), expected |-> Len(P.mbs), end |-> E["end"]])
    ELSE LET k == SelectInSeq([i \in 1..Len(P.mbs) |-> ~Same(G[i], ExpMb(P.mbs[i]))], LAMBDA t : t) IN
         IF k # 0 THEN Diag("IMPL", "macroblock-record", "parser-macroblock-record", [index |-> k, got |-> G[k], expected |-> ExpMb(P.mbs[k])])
         ELSE TRUE
Init == l = 1
Next == l <= Len(Rec) /\ (IF E.op = "parse" THEN Check ELSE TRUE) /\ l' = l + 1
Spec == Init /\ [][Next]_l
Done == l = Len(Rec) + 1 => PrintT("CONSUMED " \o ToString(l - 1) \o " OF " \o ToString(Len(Rec)))
=============================================================================
