SPECIFICATION Spec
CONSTANTS
  Total = 3
  Bits = 24
  Bounded = FALSE
INVARIANT BitsNeverNegative
INVARIANT PinnedStaysInPicture
PROPERTY MeasureDecreases
PROPERTY Returns
CHECK_DEADLOCK FALSE
