---------------------------- MODULE AnnexAVerdict ----------------------------
(* The accuracy thresholds of H.263 Annex A evaluated on the error statistics  *)
(* accumulated by TraceRecon over all shards (file STATS: one JSON object,     *)
(* data set -> [n, peak, se: 64 sums of e, se2: 64 sums of e^2]).              *)
(* For every data set:  peak error <= 1;  per-position mean square error       *)
(* <= 0.06;  overall mean square error <= 0.02;  per-position mean error       *)
(* <= 0.015 in magnitude;  overall mean error <= 0.0015 in magnitude.          *)
EXTENDS Util, Json, IOUtils
Stats == ndJsonDeserialize(IOEnv.STATS)[1]
Sets == DOMAIN Stats
VARIABLE s
Init == s \in Sets
Next == UNCHANGED s
Spec == Init /\ [][Next]_s
Diag(what, detail) == PrintT("DIAG " \o ToJson([l |-> 0, cls |-> "IMPL", what |-> what, sig |-> "annex-a-" \o what, detail |-> detail]))
A == Stats[s]
Verdict ==
    /\ IF A.peak > 1 THEN Diag("peak-error", [set |-> s, peak |-> A.peak]) ELSE TRUE
    /\ IF \E p \in 1..64 : A.se2[p] > (6 * A.n) \div 100          \* 100 x > y  <=>  x > y div 100 (no overflow for huge errors)
       THEN Diag("position-mean-square-error", [set |-> s, n |-> A.n, se2 |-> A.se2]) ELSE TRUE
    /\ IF SumSeq(A.se2) > (2 * 64 * A.n) \div 100
       THEN Diag("overall-mean-square-error", [set |-> s, n |-> A.n, total |-> SumSeq(A.se2)]) ELSE TRUE
    /\ IF \E p \in 1..64 : Abs(A.se[p]) > (15 * A.n) \div 1000
       THEN Diag("position-mean-error", [set |-> s, n |-> A.n, se |-> A.se]) ELSE TRUE
    /\ IF Abs(SumSeq(A.se)) > (12 * A.n) \div 125
       THEN Diag("overall-mean-error", [set |-> s, n |-> A.n, total |-> SumSeq(A.se)]) ELSE TRUE
    /\ PrintT("VERDICT " \o ToJson([set |-> s, n |-> A.n, peak |-> A.peak, sumsq |-> SumSeq(A.se2), sum |-> SumSeq(A.se)]))
Inv == Verdict
=============================================================================
