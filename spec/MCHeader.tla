------------------------------ MODULE MCHeader ------------------------------
(* Model-level checks of PictureHeader.tla: presence conditions of 5.1 and    *)
(* header lengths, over all OPPTYPE mode patterns and the UFEP values.        *)
EXTENDS PictureHeader
VARIABLES bits, ufep
Init == bits \in [1..10 -> {0, 1}] /\ ufep \in {0, 1}
Next == UNCHANGED <<bits, ufep>>
Spec == Init /\ [][Next]_<<bits, ufep>>
Hd == [k |-> "std", tr |-> 77, split |-> 0, doc |-> 1, freeze |-> 0, fmt |-> 7, ufep |-> ufep, ofmt |-> 6, pcf |-> bits[2],
       oflags |-> bits, mtype |-> 1, mflags |-> <<0, 1, 0>>, cpm |-> 1, psbi |-> 2, par |-> 15, pwi |-> 43, phi |-> 36,
       parw |-> 3, parh |-> 4, cpcfc |-> 200, etr |-> 3, uui |-> 0, sss |-> <<1, 0>>, elnum |-> 5, rlnum |-> 6, rpsmf |-> 5,
       trpi |-> 1, trp |-> 1000, q |-> 9, trb |-> 0, dbq |-> 0, pei |-> <<1, 2>>, ptype |-> 0, umv |-> 0, sac |-> 0, ap |-> 0, pb |-> 0]
Prev == {"REFERENCE_PICTURE_SELECTION", "ADVANCED_PREDICTION"}
Len1(b) == IF b THEN 1 ELSE 0
(* the length of the header is the sum of the lengths of the fields that 5.1 says are present *)
ExpectedLength(scal) ==
    22 + 8 + 8 + 3 + (IF ufep = 1 THEN 18 ELSE 0) + 9 + 1 + 2
    + (IF ufep = 1 THEN 23 + 16 ELSE 0)                                   \* CPFMT + EPAR (format 110, PAR 1111)
    + (IF ufep = 1 /\ bits[2] = 1 THEN 8 + 2 ELSE 0)                       \* CPCFC + ETR
    + (IF ufep = 1 /\ bits[1] = 1 THEN 2 ELSE 0)                           \* UUI = "01"
    + (IF ufep = 1 /\ bits[6] = 1 THEN 2 ELSE 0)                           \* SSS
    + (IF scal THEN 4 + (IF ufep = 1 THEN 4 ELSE 0) ELSE 0)                 \* ELNUM, RLNUM
    + (IF ufep = 1 /\ bits[7] = 1 THEN 3 ELSE 0)                           \* RPSMF
    + (IF (ufep = 1 /\ bits[7] = 1) \/ ufep = 0 THEN 1 + 10 + 2 ELSE 0)     \* TRPI TRP BCI (RPS in force; inherited when UFEP = 000)
    + 5 + (9 + 9 + 1)                                                      \* PQUANT, two PEI/PSUPP bytes, final PEI
Inv == /\ \A scal \in BOOLEAN : Len(StdBits(Hd, Prev, scal)) = ExpectedLength(scal)
       /\ StdExpected(Hd, Prev, FALSE).opts \cap OppSet = (IF ufep = 1 THEN Flagged(OppNames, bits) ELSE Prev)
       /\ ~StdMalformed(Hd)
=============================================================================
