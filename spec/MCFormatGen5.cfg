SPECIFICATION Spec
CONSTANTS Sizes = {1, 2}
  MaxLen = 5
  Design = "current"
INVARIANT SizeInForce
INVARIANT Export
CHECK_DEADLOCK FALSE
