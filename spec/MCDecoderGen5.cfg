SPECIFICATION Spec
CONSTANTS
  TRs = {0, 1, 255}
  MaxLen = 5
  Design = "current"
  AllowCollision = TRUE
CHECK_DEADLOCK FALSE
INVARIANT Export
