----------------------------- MODULE Instances -----------------------------
(***************************************************************************)
(* N decoder instances used concurrently (C17).  Each instance runs its    *)
(* own fixed program of decode calls; calls of different instances         *)
(* interleave arbitrarily (one call = one atomic step: decoder objects are *)
(* not shared, so the call is the unit of interleaving).  The only state   *)
(* shared between instances is the lazily initialised constant tables      *)
(* (lazy_static), written once by whichever call touches them first.       *)
(*                                                                         *)
(* Properties: Independence - a call on instance j leaves every other      *)
(* instance unchanged; Determinism - instances that ran the same program   *)
(* prefix are in the same state, whatever the interleaving, and the shared *)
(* tables never influence a result.                                        *)
(***************************************************************************)
EXTENDS Integers, Sequences, FiniteSets, TLC, Json

CONSTANTS N,            \* number of instances
          Prog          \* Prog[i] = sequence of calls of instance i: "I" | "P" | "D" | "R" (rejected input)
Inst == 1..N
NoneP == <<0, "-">>
VARIABLES done,         \* done[i] = number of calls instance i has completed
          st,           \* st[i] = <<last, ref>>: pictures as <<call index, kind, index of the reference used>>
          tables,       \* shared: have the lazily initialised tables been built?
          order         \* history: which instance moved at each step (exported)
vars == <<done, st, tables, order>>

Init == /\ done = [i \in Inst |-> 0]
        /\ st = [i \in Inst |-> <<NoneP, NoneP>>]
        /\ tables = FALSE /\ order = <<>>
(* the effect of one call on an instance's own state: a function of that state and the call only *)
Apply(s, k, kind) ==
    LET last == s[1]  ref == s[2] IN
    IF kind = "R" \/ (kind \in {"P", "D"} /\ ref = NoneP) THEN s
    ELSE LET p == <<k, kind, IF kind = "I" THEN 0 ELSE ref[1]>> IN
         <<p, IF kind = "D" THEN ref ELSE p>>
Call(i) ==
    /\ done[i] < Len(Prog[i])
    /\ done' = [done EXCEPT ![i] = @ + 1]
    /\ st' = [st EXCEPT ![i] = Apply(st[i], done[i] + 1, Prog[i][done[i] + 1])]
    /\ tables' = TRUE                       \* first use initialises the shared tables; later uses only read them
    /\ order' = Append(order, i)
Next == \E i \in Inst : Call(i)
Spec == Init /\ [][Next]_vars

(* state an instance must be in after k calls of its program, computed sequentially *)
RECURSIVE RunSeq(_, _)
RunSeq(p, k) == IF k = 0 THEN <<NoneP, NoneP>> ELSE Apply(RunSeq(p, k - 1), k, p[k])
Determinism == \A i \in Inst : st[i] = RunSeq(Prog[i], done[i])
ReplicasAgree == \A i \in Inst : \A j \in Inst :
    (done[i] = done[j] /\ SubSeq(Prog[i], 1, done[i]) = SubSeq(Prog[j], 1, done[j])) => st[i] = st[j]
Independence == [][ \A i \in Inst : done'[i] = done[i] => st'[i] = st[i] ]_vars
Inv == Determinism /\ ReplicasAgree
Export == (\A i \in Inst : done[i] = Len(Prog[i])) => PrintT("GEN " \o ToJson([order |-> order]))
=============================================================================
