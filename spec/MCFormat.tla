----------------------------- MODULE MCFormat -----------------------------
EXTENDS Format, Json
(* export of every maximal history for replay against the real decoder *)
Export == Len(hist) = MaxLen => PrintT("GEN " \o ToJson([ops |-> hist]))
===========================================================================
