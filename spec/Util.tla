------------------------------- MODULE Util -------------------------------
(***************************************************************************)
(* Integer and bit-string helpers shared by every module of the h263-rs    *)
(* specification.  TLC integers are 32-bit and overflow is a TLC *error*   *)
(* (never a silent wrap), so every operator here is exact or fails loudly. *)
(***************************************************************************)
EXTENDS Integers, Sequences, TLC

Abs(x)  == IF x < 0 THEN -x ELSE x
Sgn(x)  == IF x > 0 THEN 1 ELSE IF x < 0 THEN -1 ELSE 0
Min2(a, b) == IF a < b THEN a ELSE b
Max2(a, b) == IF a > b THEN a ELSE b
Clamp(x, lo, hi) == IF x < lo THEN lo ELSE IF x > hi THEN hi ELSE x

(* TLA+ \div rounds toward minus infinity (for a positive divisor).        *)
(* The Recommendation's "/" (Annex J, 6.1.2 ...) truncates toward zero.     *)
TDiv(a, b) == IF a >= 0 THEN a \div b ELSE -((-a) \div b)
(* Arithmetic shift right = floor division by a power of two.               *)
Pow2(n) == 2 ^ n
Asr(a, n) == a \div Pow2(n)
CeilDiv(a, b) == (a + b - 1) \div b

(* round(a*b/c) for a, b, c > 0 without forming a*b (which may exceed      *)
(* 2^31): a = q*c + r  =>  a*b/c = q*b + r*b/c, and r*b < c*b is required   *)
(* to fit.  Ties round up.                                                  *)
RoundDiv(n, d) == (2 * n + d) \div (2 * d)
RoundMulDiv(a, b, c) == LET q == a \div c  r == a % c IN q * b + RoundDiv(r * b, c)
FloorMulDiv(a, b, c) == LET q == a \div c  r == a % c IN q * b + ((r * b) \div c)

(* TLC evaluates operator arguments and LET definitions by name (and does   *)
(* not cache them inside parametrised operators): an expensive value used   *)
(* many times is recomputed each time.  Binding it with a quantifier over a *)
(* singleton set forces one evaluation: ByValue(v, Op) = Op(v).             *)
ByValue(v, Op(_)) == CHOOSE r \in {Op(t) : t \in {v}} : TRUE

(***************************************************************************)
(* Bit strings are sequences over {0,1}, first transmitted bit first.      *)
(***************************************************************************)
RECURSIVE ToBitsR(_, _)
ToBitsR(v, n) == IF n = 0 THEN <<>> ELSE Append(ToBitsR(v \div 2, n - 1), v % 2)
(* the n low-order bits of the non-negative integer v, MSB first *)
ToBits(v, n) == [i \in 1..n |-> (v \div Pow2(n - i)) % 2]
(* two's complement, n bits, of a possibly negative v *)
ToBitsS(v, n) == ToBits(IF v < 0 THEN v + Pow2(n) ELSE v, n)

RECURSIVE FromBitsR(_, _, _)
FromBitsR(b, i, acc) == IF i > Len(b) THEN acc ELSE FromBitsR(b, i + 1, 2 * acc + b[i])
FromBits(b) == FromBitsR(b, 1, 0)
(* value of bits b[from .. from+n-1] *)
RECURSIVE BitsAtR(_, _, _, _)
BitsAtR(b, i, n, acc) == IF n = 0 THEN acc ELSE BitsAtR(b, i + 1, n - 1, 2 * acc + b[i])
BitsAt(b, from, n) == BitsAtR(b, from, n, 0)
SignExtend(v, n) == IF n > 0 /\ v >= Pow2(n - 1) THEN v - Pow2(n) ELSE v

ByteBits(x) == ToBits(x, 8)
RECURSIVE BitsOfBytesR(_, _)
BitsOfBytesR(bs, i) == IF i > Len(bs) THEN <<>> ELSE ByteBits(bs[i]) \o BitsOfBytesR(bs, i + 1)
BitsOfBytes(bs) == [k \in 1..(8 * Len(bs)) |-> (bs[((k - 1) \div 8) + 1] \div Pow2(7 - ((k - 1) % 8))) % 2]
Zeros(n) == [i \in 1..n |-> 0]
PadToByte(b) == b \o Zeros((8 - (Len(b) % 8)) % 8)
BytesOfBits(b) == LET p == PadToByte(b) IN [k \in 1..(Len(p) \div 8) |-> BitsAt(p, 8 * (k - 1) + 1, 8)]

RECURSIVE ConcatAllR(_, _)
ConcatAllR(ss, i) == IF i > Len(ss) THEN <<>> ELSE ss[i] \o ConcatAllR(ss, i + 1)
ConcatAll(ss) == ConcatAllR(ss, 1)

RECURSIVE SumSeqR(_, _, _)
SumSeqR(s, i, acc) == IF i > Len(s) THEN acc ELSE SumSeqR(s, i + 1, acc + s[i])
SumSeq(s) == SumSeqR(s, 1, 0)

(* a bit string written as a string of '0'/'1' characters is not available  *)
(* in TLC (no string indexing); bit strings travel as JSON arrays or as     *)
(* byte arrays plus a bit length.                                           *)

(***************************************************************************)
(* A small deterministic pseudo-random function, so that "random" inputs    *)
(* are a pure function of (seed, index) and every run is reproducible.     *)
(* Lehmer generator modulo the prime 65537 with multiplier 75 (ZX81); all   *)
(* intermediate values stay below 2^23.                                     *)
(***************************************************************************)
LStep(x) == ((x % 65537) * 75 + 74) % 65537
Mix(a, b) == LStep(LStep(LStep((a % 65537) * 7 + (b % 65537) * 13 + 12345) + (b \div 65537) + 17 * (a \div 65537)))
(* uniform-ish value in 0..n-1 (n <= 65536) from a key triple *)
Rnd(seed, i, j, n) == Mix(Mix(Mix(seed, i), j), i + 31 * j) % n
=============================================================================
