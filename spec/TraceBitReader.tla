--------------------------- MODULE TraceBitReader ---------------------------
(* Trace validation of the real H263Reader against BitReader.tla (C14).     *)
(* One trace line = one reader instance with its operation list and the     *)
(* recorded result of every operation; one TLC state per operation.         *)
EXTENDS BitReader, Json, IOUtils, SequencesExt
Rec == ndJsonDeserialize(IOEnv.TRACE)
VARIABLES l,      \* trace line
          i,      \* next operation of the line (1-based); 0 = line not started
          pos, avail,
          stack   \* open transactions: <<kind, checkpoint, mode, index of the matching "end">>
vars == <<l, i, pos, avail, stack>>
E == Rec[l]
Src == E.src
Ops == E.ops
Diag(cls, what, sig, detail) ==
    PrintT("DIAG " \o ToJson([l |-> l, cls |-> cls, what |-> what, sig |-> sig, detail |-> detail]))
WidthOf(ty) == CASE ty = "u8" -> 8 [] ty = "u16" -> 16 [] ty = "u32" -> 32 [] ty = "i16" -> 16 [] ty = "i32" -> 32 [] ty = "u64" -> 64

(* ---- the VLC table of the line: codes for the specification, trie for the driver ---- *)
Tbl == E.tbl
RECURSIVE Walk(_, _, _)
Walk(ent, idx, code) ==         \* follow `code` from trie slot idx (0-based slots)
    IF idx + 1 > Len(ent) THEN <<"bad">>
    ELSE LET n == ent[idx + 1] IN
         IF n[1] = "E" THEN (IF code = <<>> THEN <<"end", n[2]>> ELSE <<"bad">>)
         ELSE IF code = <<>> THEN <<"bad">>
         ELSE Walk(ent, IF code[1] = 0 THEN n[2] ELSE n[3], Tail(code))
TableConsistent ==
    /\ PrefixFree(Tbl) /\ Complete(Tbl)
    /\ \A k \in 1..Len(Tbl) : Walk(E.entries, 0, Tbl[k][1]) = <<"end", Tbl[k][2]>>

RECURSIVE MatchEnd(_, _)
MatchEnd(j, depth) ==           \* index of the "end" matching a "begin" (scan starts after it)
    IF j > Len(Ops) THEN Len(Ops) + 1
    ELSE IF Ops[j][1] = "begin" THEN MatchEnd(j + 1, depth + 1)
    ELSE IF Ops[j][1] = "end" THEN (IF depth = 0 THEN j ELSE MatchEnd(j + 1, depth - 1))
    ELSE MatchEnd(j + 1, depth)

ProbeAt(a, p) ==
    LET r == Remaining(a, p) IN
    IF r >= 24 THEN <<24, Val(Src, p, 24)>> ELSE IF r >= 16 THEN <<16, Val(Src, p, 16)>>
    ELSE IF r >= 8 THEN <<8, Val(Src, p, 8)>> ELSE IF r >= 4 THEN <<4, Val(Src, p, 4)>>
    ELSE IF r >= 2 THEN <<2, Val(Src, p, 2)>> ELSE IF r >= 1 THEN <<1, Val(Src, p, 1)>> ELSE <<0, 0>>

NextLine == l' = l + 1 /\ i' = 0 /\ pos' = 0 /\ avail' = 0 /\ stack' = <<>>
Op  == Ops[i]
Res == E.res[i]
Kind == Op[1]

(* expected outcome of the current operation, as [res, pos] *)
Expected ==
    CASE Kind = "peek"  -> Peek(Src, avail, pos, Op[2], WidthOf(Op[3]))
      [] Kind = "read"  -> Read(Src, avail, pos, Op[2], WidthOf(Op[3]))
      [] Kind = "peeks" -> PeekSigned(Src, avail, pos, Op[2], WidthOf(Op[3]))
      [] Kind = "reads" -> ReadSigned(Src, avail, pos, Op[2], WidthOf(Op[3]))
      [] Kind = "skip"  -> Skip(Src, avail, pos, Op[2])
      [] Kind = "u8"    -> Read(Src, avail, pos, 8, 8)
      [] Kind = "vlc"   -> Vlc(Src, avail, pos, Tbl)
      [] Kind = "umv"   -> Umv(Src, avail, pos)
      [] OTHER          -> Out(Ok(0), pos)
IsVlc == Kind \in {"vlc", "umv"}
(* does the recorded result agree with the expected one? *)
Agrees(o) ==
    CASE o.res.r = "ok" /\ Kind \in {"skip"} -> Res.r = "ok"
      [] o.res.r = "ok" /\ Kind # "skip" -> Res.r = "ok" /\ Res.v = o.res.v
      [] o.res.r = "eof"      -> Res.r = "eof"
      [] o.res.r = "badwidth" -> Res.r # "ok"
      [] o.res.r = "invalid"  -> Res.r \notin {"ok", "eof"}
      [] OTHER -> FALSE
ProbeOk(a, p) == "p" \in DOMAIN Res => Res.p = ProbeAt(a, p)

Mismatch(what, sig, exp) ==
    /\ Diag("IMPL", what, sig, [op |-> Op, index |-> i, pos |-> pos, avail |-> avail, got |-> Res, expected |-> exp,
                                 src |-> Src])
    /\ NextLine

StartLine ==
    /\ i = 0
    /\ IF ~TableConsistent THEN Diag("HARNESS", "vlc-table", "harness", E.tbl) /\ NextLine
       ELSE IF E.ret # "ok"
       THEN \* the reader panicked at operation Len(res)+1
            /\ LET k == Len(E.res) + 1
                   op == IF k <= Len(Ops) THEN Ops[k] ELSE <<"?">> IN
               Diag("IMPL", "reader-no-return",
                    IF op[1] \in {"reads", "peeks"} /\ op[2] = 0 THEN "reader-panic-signed-width-0" ELSE "reader-panic",
                    [ret |-> E.ret, op |-> op, index |-> k])
            /\ NextLine
       ELSE /\ i' = 1 /\ pos' = 0 /\ avail' = E.avail /\ stack' = <<>> /\ l' = l

Plain ==    \* fixed-width / VLC operations
    /\ i >= 1 /\ i <= Len(Ops) /\ Kind \in {"peek", "read", "peeks", "reads", "skip", "u8", "vlc", "umv"}
    /\ LET o == Expected
           failed == o.res.r # "ok"
           inTxn == stack # <<>>
           mode == IF inTxn THEN stack[Len(stack)][3] ELSE "n"
           abort == failed /\ inTxn /\ (mode = "a" \/ (mode = "v" /\ IsVlc))
       IN
       IF ~Agrees(o) THEN Mismatch("reader-result", "reader-" \o Kind \o "-result", o.res)
       ELSE IF ~(failed /\ IsVlc) /\ ~ProbeOk(avail, o.pos) THEN Mismatch("reader-position", "reader-" \o Kind \o "-position", ProbeAt(avail, o.pos))
       ELSE IF abort
       THEN \* the closure returns Err: the transaction rolls back, execution resumes after its "end"
            LET top == stack[Len(stack)] IN
            /\ pos' = top[2] /\ stack' = SubSeq(stack, 1, Len(stack) - 1)
            /\ i' = top[4]          \* the matching "end" op is validated next (it must report "err")
            /\ UNCHANGED <<l, avail>>
       ELSE IF failed /\ IsVlc /\ ~inTxn THEN NextLine      \* position undefined: the line ends here
       ELSE /\ pos' = (IF failed /\ IsVlc THEN pos ELSE o.pos)   \* (failed VLC inside mode "n": not generated)
            /\ i' = i + 1 /\ UNCHANGED <<l, avail, stack>>

StartCode ==
    /\ i >= 1 /\ i <= Len(Ops) /\ Kind = "sc"
    /\ LET allowed == StartCodeAllowed(Src, avail, pos, Op[2])
           got == IF Res.r = "ok" THEN Ok(Res.v) ELSE IF Res.r = "none" THEN NoneR ELSE IF Res.r = "eof" THEN Eof
                  ELSE [r |-> Res.r, v |-> 0]
           failed == Res.r \notin {"ok", "none"}
           inTxn == stack # <<>>
           abort == failed /\ inTxn /\ stack[Len(stack)][3] = "a"
       IN
       IF got \notin allowed THEN Mismatch("reader-start-code", "reader-start-code", allowed)
       ELSE IF ~ProbeOk(avail, pos) THEN Mismatch("reader-position", "reader-sc-position", ProbeAt(avail, pos))
       ELSE IF abort
       THEN LET top == stack[Len(stack)] IN
            /\ pos' = top[2] /\ stack' = SubSeq(stack, 1, Len(stack) - 1) /\ i' = top[4] /\ UNCHANGED <<l, avail>>
       ELSE i' = i + 1 /\ UNCHANGED <<l, pos, avail, stack>>

Begin ==
    /\ i >= 1 /\ i <= Len(Ops) /\ Kind = "begin"
    /\ IF ~ProbeOk(avail, pos) THEN Mismatch("reader-position", "reader-begin-position", ProbeAt(avail, pos))
       ELSE /\ stack' = Append(stack, <<Op[2], pos, Op[3], MatchEnd(i + 1, 0)>>)
            /\ i' = i + 1 /\ UNCHANGED <<l, pos, avail>>

End ==      \* reached either by running to the end of the body or by an abort
    /\ i >= 1 /\ i <= Len(Ops) /\ Kind = "end"
    /\ IF stack # <<>> /\ stack[Len(stack)][4] = i
       THEN \* normal completion: the closure returns the outcome named by the op
            LET top == stack[Len(stack)]
                p1 == EndPos(top[1], Op[2], top[2], pos) IN
            IF Res.r # Op[2] THEN Mismatch("reader-transaction-result", "reader-end-result", Op[2])
            ELSE IF ~ProbeOk(avail, p1) THEN Mismatch("reader-position", "reader-end-position", ProbeAt(avail, p1))
            ELSE pos' = p1 /\ stack' = SubSeq(stack, 1, Len(stack) - 1) /\ i' = i + 1 /\ UNCHANGED <<l, avail>>
       ELSE \* after an abort (the transaction was already popped): must report the error, position = checkpoint
            IF Res.r # "err" THEN Mismatch("reader-transaction-result", "reader-abort-result", "err")
            ELSE IF ~ProbeOk(avail, pos) THEN Mismatch("reader-position", "reader-abort-position", ProbeAt(avail, pos))
            ELSE i' = i + 1 /\ UNCHANGED <<l, pos, avail, stack>>

Commit ==
    /\ i >= 1 /\ i <= Len(Ops) /\ Kind = "commit"
    /\ IF ~ProbeOk(avail, pos) THEN Mismatch("reader-position", "reader-commit-position", ProbeAt(avail, pos))
       ELSE i' = i + 1 /\ UNCHANGED <<l, pos, avail, stack>>
AppendData ==
    /\ i >= 1 /\ i <= Len(Ops) /\ Kind = "append"
    /\ LET a == Min2(avail + Op[2], Len(Src)) IN
       IF ~ProbeOk(a, pos) THEN Mismatch("reader-position", "reader-append-position", ProbeAt(a, pos))
       ELSE avail' = a /\ i' = i + 1 /\ UNCHANGED <<l, pos, stack>>
Finish == i > Len(Ops) /\ NextLine

Init == l = 1 /\ i = 0 /\ pos = 0 /\ avail = 0 /\ stack = <<>>
Next == l <= Len(Rec) /\ (StartLine \/ Plain \/ StartCode \/ Begin \/ End \/ Commit \/ AppendData \/ Finish)
Spec == Init /\ [][Next]_vars
Done == l = Len(Rec) + 1 => PrintT("CONSUMED " \o ToString(l - 1) \o " OF " \o ToString(Len(Rec)))
=============================================================================
