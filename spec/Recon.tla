------------------------------- MODULE Recon -------------------------------
(***************************************************************************)
(* Reconstruction arithmetic of H.263 (clauses 6.1, 6.2, Annex A accuracy  *)
(* reference, Annex F vector prediction).  Pure integer operators; the     *)
(* ideal IDCT is evaluated in two-limb fixed point with an explicit error  *)
(* interval, because TLC has 32-bit integers and no reals.                 *)
(***************************************************************************)
EXTENDS H263Tables

(* ------------------------------ 6.2.1 dequantisation ---------------------------- *)
IntraDcValid(c) == c \in 1..255 /\ c # 128
IntraDcLevel(c) == IF c = 255 THEN 1024 ELSE 8 * c
Dequant(q, L)   == Clamp(Sgn(L) * (q * (2 * Abs(L) + 1) - (IF q % 2 = 0 THEN 1 ELSE 0)), -2048, 2047)
QuantUpdate(q, dq) == Clamp(q + dq, 1, 31)

(* A block is [dc |-> INTRADC code or -1, ev |-> <<<<last, run, level, form>>, ...>>].            *)
(* Positions of the events in zig-zag order: event j lands on scan index                         *)
(* (dc present ? 1 : 0) + sum_{i<j}(run_i + 1) + run_j   (0-based).                               *)
RECURSIVE ScanIdxR(_, _, _)
ScanIdxR(ev, j, start) == IF j > Len(ev) THEN <<>> ELSE <<start + ev[j][2]>> \o ScanIdxR(ev, j + 1, start + ev[j][2] + 1)
ScanIdx(blk) == ScanIdxR(blk.ev, 1, IF blk.dc >= 0 THEN 1 ELSE 0)
(* the 64 reconstructed coefficients, row-major: index v*8 + u + 1 (u horizontal, v vertical frequency) *)
Coefs(blk, q) ==
    LET idx == ScanIdx(blk) IN
    [k \in 1..64 |->
        LET u == (k - 1) % 8
            v == (k - 1) \div 8
        IN  IF blk.dc >= 0 /\ k = 1 THEN IntraDcLevel(blk.dc)
            ELSE LET hits == {j \in 1..Len(idx) : idx[j] <= 63 /\ ZigZag[idx[j] + 1] = <<u, v>>} IN
                 IF hits = {} THEN 0 ELSE Dequant(q, blk.ev[CHOOSE j \in hits : TRUE][3])]
ZeroBlock == [k \in 1..64 |-> 0]
SumAbs(F) == SumSeq([k \in 1..64 |-> Abs(F[k])])

(* ------------------------------ ideal 8x8 inverse DCT ----------------------------- *)
(* f(x,y) = sum_u sum_v K(u,x) K(v,y) F(u,v),  K(u,x) = C(u)/2 cos((2x+1) u pi/16).              *)
(* Kfix(u,x) = K(u,x) * 2^27 = +-Cos26[m] (for u = 0: cos(4 pi/16) = 1/sqrt 2).                   *)
Kfix(u, x) ==
    IF u = 0 THEN Cos26[5]
    ELSE LET m == ((2 * x + 1) * u) % 32 IN
         IF m <= 8 THEN Cos26[m + 1] ELSE IF m <= 16 THEN -Cos26[17 - m]
         ELSE IF m <= 24 THEN -Cos26[m - 15] ELSE Cos26[33 - m]
(* two limbs: Kfix = KH * 2^13 + KL, 0 <= KL < 2^13 *)
KH == TLCEval([u \in 1..8 |-> TLCEval([x \in 1..8 |-> Kfix(u - 1, x - 1) \div 8192])])
KL == TLCEval([u \in 1..8 |-> TLCEval([x \in 1..8 |-> Kfix(u - 1, x - 1) % 8192])])

(* pass 1 (horizontal): g(x,v) = sum_u K(u,x) F(u,v), returned as round(g * 2^15);               *)
(* F row-major: F[v*8+u+1].  Result index v*8 + x + 1.                                           *)
Pass1(F) ==
    [k \in 1..64 |->
        LET x == ((k - 1) % 8) + 1
            b == ((k - 1) \div 8) * 8
        IN  IF F[b + 1] = 0 /\ F[b + 2] = 0 /\ F[b + 3] = 0 /\ F[b + 4] = 0 /\ F[b + 5] = 0 /\ F[b + 6] = 0 /\ F[b + 7] = 0 /\ F[b + 8] = 0
            THEN 0
            ELSE LET A == KH[1][x] * F[b + 1] + KH[2][x] * F[b + 2] + KH[3][x] * F[b + 3] + KH[4][x] * F[b + 4]
                        + KH[5][x] * F[b + 5] + KH[6][x] * F[b + 6] + KH[7][x] * F[b + 7] + KH[8][x] * F[b + 8]
                     B == KL[1][x] * F[b + 1] + KL[2][x] * F[b + 2] + KL[3][x] * F[b + 3] + KL[4][x] * F[b + 4]
                        + KL[5][x] * F[b + 5] + KL[6][x] * F[b + 6] + KL[7][x] * F[b + 7] + KL[8][x] * F[b + 8]
                 IN  2 * A + ((B + 2048) \div 4096)]
(* pass 2 (vertical): f(x,y) = sum_v K(v,y) g(x,v); g given as G[v*8+x+1] = round(g*2^15).        *)
(* Returns f in units of 2^-12, as the lower end f12 of an interval [f12, f12 + 4).              *)
Pass2At(G, x, y) ==
    LET gh(v) == G[(v - 1) * 8 + x] \div 16384
        gl(v) == G[(v - 1) * 8 + x] % 16384
        Phh == KH[1][y] * gh(1) + KH[2][y] * gh(2) + KH[3][y] * gh(3) + KH[4][y] * gh(4)
             + KH[5][y] * gh(5) + KH[6][y] * gh(6) + KH[7][y] * gh(7) + KH[8][y] * gh(8)
        Phl == KH[1][y] * gl(1) + KH[2][y] * gl(2) + KH[3][y] * gl(3) + KH[4][y] * gl(4)
             + KH[5][y] * gl(5) + KH[6][y] * gl(6) + KH[7][y] * gl(7) + KH[8][y] * gl(8)
        Plh == KL[1][y] * gh(1) + KL[2][y] * gh(2) + KL[3][y] * gh(3) + KL[4][y] * gh(4)
             + KL[5][y] * gh(5) + KL[6][y] * gh(6) + KL[7][y] * gh(7) + KL[8][y] * gh(8)
        Pll == KL[1][y] * gl(1) + KL[2][y] * gl(2) + KL[3][y] * gl(3) + KL[4][y] * gl(4)
             + KL[5][y] * gl(5) + KL[6][y] * gl(6) + KL[7][y] * gl(7) + KL[8][y] * gl(8)
    IN  (Phh \div 8) + (Phl \div 131072) + (Plh \div 65536) + (Pll \div 1073741824)
(* Tolerance in units of 2^-12 around the ideal value: eps(F) = 2^-9 + 2^-19 * sum|F| for the     *)
(* implementation (any single-precision separable evaluation stays inside, DESIGN.md section 7)  *)
(* plus the reference's own error (4 units of floor slack handled separately, 1 unit for the     *)
(* pass-1 rounding and the 2^-28 quantisation of the cosines).                                   *)
Tol12(sumAbsF) == 8 + CeilDiv(sumAbsF, 128) + 1
CeilDivS(a, b) == -((-a) \div b)                \* ceiling for any sign of a, b > 0
(* the set of integers the rounded sample may take, as <<min, max>> *)
RoundRange(f12, tol) == << CeilDivS(f12 - tol - 2048, 4096), (f12 + 4 + tol + 2048) \div 4096 >>
(* residual ranges of a whole block: index y*8 + x + 1 -> <<min, max>>, clipped to -256..255 *)
IdctRangesTol(G, tol) ==
    [k \in 1..64 |->
        LET r == RoundRange(Pass2At(G, ((k - 1) % 8) + 1, ((k - 1) \div 8) + 1), tol)
        IN  <<Clamp(r[1], -256, 255), Clamp(r[2], -256, 255)>>]
IdctRanges(G, sumAbsF) == ByValue(Tol12(sumAbsF), LAMBDA tol : IdctRangesTol(G, tol))
ZeroRanges == [k \in 1..64 |-> <<0, 0>>]
IsZeroBlock(F) == \A k \in 1..64 : F[k] = 0

(* ------------------------------ 6.1.1 motion vectors ------------------------------ *)
(* vectors are <<x, y>> in half-sample units *)
Median3(a, b, c) == a + b + c - Min2(a, Min2(b, c)) - Max2(a, Max2(b, c))
WrapMv(pred, diff) == ((pred + diff + 32) % 64) - 32
(* the formulation by "the difference or its inverted value, whichever lands in range" *)
InvertDiff(d) == IF d > 0 THEN d - 64 ELSE IF d < 0 THEN d + 64 ELSE 0
WrapMvByInversion(pred, diff) == IF pred + diff \in -32..31 THEN pred + diff ELSE pred + InvertDiff(diff)
(* chroma vector component from the sum of the four luma components (sixteenth positions)        *)
ChromaMv(sum) ==
    LET a == Abs(sum) \div 16
        f == Abs(sum) % 16
    IN  Sgn(sum) * (IF f <= 2 THEN 2 * a ELSE IF f <= 13 THEN 2 * a + 1 ELSE 2 * a + 2)
Zero2 == <<0, 0>>
(* Candidate predictors for block blk (0..3) of macroblock mb (0-based, raster order) in a       *)
(* picture mbw macroblocks wide.  mvs[i+1] = the four vectors of macroblock i (intra and         *)
(* not-coded macroblocks hold zero vectors); cur = vectors of the current macroblock decoded so  *)
(* far.  Rules applied in the prescribed order: left edge => MV1 = 0; top edge => MV2 = MV3 =    *)
(* MV1; right edge => MV3 = 0.                                                                   *)
Candidates(mvs, mbw, mb, blk, cur) ==
    LET col == mb % mbw
        row == mb \div mbw
        mv1 == CASE blk \in {0, 2} -> IF col = 0 THEN Zero2 ELSE mvs[mb][blk + 2]       \* left macroblock, block blk+1
                 [] OTHER -> cur[blk]                                                      \* block to the left in this macroblock
        mv2 == CASE blk \in {0, 1} -> IF row = 0 THEN mv1 ELSE mvs[mb - mbw + 1][blk + 3]  \* macroblock above, block blk+2
                 [] OTHER -> cur[1]
        mv3 == CASE blk \in {0, 1} -> IF col = mbw - 1 THEN Zero2
                                      ELSE IF row = 0 THEN mv1 ELSE mvs[mb - mbw + 2][3]   \* above-right macroblock, block 2
                 [] OTHER -> cur[2]
    IN  <<mv1, mv2, mv3>>
PredictMv(mvs, mbw, mb, blk, cur) ==
    LET c == Candidates(mvs, mbw, mb, blk, cur) IN
    <<Median3(c[1][1], c[2][1], c[3][1]), Median3(c[1][2], c[2][2], c[3][2])>>
DecodeMv(pred, mvd) == <<WrapMv(pred[1], mvd[1]), WrapMv(pred[2], mvd[2])>>

(* ------------------------------ 6.1.2 prediction ---------------------------------- *)
SampleAt(plane, w, h, x, y) == plane[Clamp(y, 0, h - 1) * w + Clamp(x, 0, w - 1) + 1]
(* prediction for position (x, y) from a reference plane, vector mv in half samples *)
PredSample(plane, w, h, x, y, mv) ==
    LET ix == x + (mv[1] \div 2)        \* floor
        iy == y + (mv[2] \div 2)
        hx == mv[1] % 2 = 1
        hy == mv[2] % 2 = 1
        a == SampleAt(plane, w, h, ix, iy)
    IN  IF ~hx /\ ~hy THEN a
        ELSE IF hx /\ ~hy THEN (a + SampleAt(plane, w, h, ix + 1, iy) + 1) \div 2
        ELSE IF ~hx /\ hy THEN (a + SampleAt(plane, w, h, ix, iy + 1) + 1) \div 2
        ELSE (a + SampleAt(plane, w, h, ix + 1, iy) + SampleAt(plane, w, h, ix, iy + 1)
                + SampleAt(plane, w, h, ix + 1, iy + 1) + 2) \div 4

(* ------------------------------ plane geometry ------------------------------------ *)
MbW(w) == CeilDiv(w, 16)
MbH(h) == CeilDiv(h, 16)
ChW(w) == (w + 1) \div 2
ChH(h) == (h + 1) \div 2
=============================================================================
