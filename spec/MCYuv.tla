------------------------------- MODULE MCYuv -------------------------------
(* Model-level lemmas of Yuv.tla, checked by TLC for every (Y, Cb, Cr).     *)
(* One state per luma value; the invariant quantifies over all 2^16 chroma  *)
(* pairs.  Sharded over JVMs with the environment variables SHARD/NSHARDS.  *)
EXTENDS Yuv, IOUtils
SH  == atoi(IOEnv.SHARD)
NSH == atoi(IOEnv.NSHARDS)
YS  == {v \in 0..255 : v % NSH = SH}
VARIABLE y
Init == y \in YS
Next == UNCHANGED y
Spec == Init /\ [][Next]_y

CoefficientsAreRounded ==       \* |C - c*65536| <= 1/2, stated at resolution 2^-20
    /\ 16 * CY  - YLo  \in -8..9  /\ 16 * CRR - RRLo \in -8..9 /\ 16 * CBB - BBLo \in -8..9
    /\ 16 * CRG - RGLo \in -8..9  /\ 16 * CBG - BGLo \in -8..9
WithinOne ==
    /\ \A c \in 0..255 : RWithin1(y, c) /\ BWithin1(y, c)
    /\ \A cb \in 0..255 : \A cr \in 0..255 : GWithin1(y, cb, cr)
Monotone ==
    /\ \A c \in 0..255 :
         /\ y < 255 => R(y + 1, 0, c) >= R(y, 0, c) /\ B(y + 1, c, 0) >= B(y, c, 0)
         /\ c < 255 => R(y, 0, c + 1) >= R(y, 0, c) /\ B(y, c + 1, 0) >= B(y, c, 0)
    /\ \A cb \in 0..255 : \A cr \in 0..255 :
         /\ y < 255  => G(y + 1, cb, cr) >= G(y, cb, cr)
         /\ cb < 255 => G(y, cb + 1, cr) <= G(y, cb, cr)
         /\ cr < 255 => G(y, cb, cr + 1) <= G(y, cb, cr)
ChannelsDependOnlyOnTheirInputs ==
    \A c \in 0..255 : \A d \in {0, 77, 255} : R(y, d, c) = R(y, 0, c) /\ B(y, c, d) = B(y, c, 0)
Inv == CoefficientsAreRounded /\ WithinOne /\ Monotone /\ ChannelsDependOnlyOnTheirInputs
=============================================================================
