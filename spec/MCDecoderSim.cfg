SPECIFICATION Spec
CONSTANTS
  TRs = {0, 1, 2, 127, 128, 254, 255}
  MaxLen = 10
  Design = "current"
  AllowCollision = TRUE
CHECK_DEADLOCK FALSE
INVARIANT Export
