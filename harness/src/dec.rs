//! Drivers for the decoder: call histories on `H263State`, the picture-header parser, and the
//! reconstruction primitives reached through the verification hooks.

use crate::rdr::{err_name, Growing};
use crate::{bytes, guarded, ints};
use h263_rs::parser::{decode_picture, H263Reader};
use h263_rs::verif_hooks as hk;
use h263_rs::{DecoderOption, H263State, PictureTypeCode};
use serde_json::{json, Value};
use std::cell::RefCell;
use std::collections::HashMap;
use std::rc::Rc;

pub struct Dec {
    pub state: H263State,
    pub reader: H263Reader<Growing>,
    pub src: Growing,
    /// "noprobe": do not look at the reader after a call (looking makes it buffer the next bytes, which
    /// is itself a use of the reader between two calls; histories run both ways)
    pub noprobe: bool,
}

#[derive(Default)]
pub struct Ctx {
    pub decs: HashMap<i64, Dec>,
}

fn opts(cmd: &Value) -> DecoderOption {
    let mut o = DecoderOption::empty();
    if cmd["sor"].as_bool().unwrap_or(true) {
        o |= DecoderOption::SORENSON_SPARK_BITSTREAM;
    }
    if cmd["scal"].as_bool().unwrap_or(false) {
        o |= DecoderOption::USE_SCALABILITY_MODE;
    }
    o
}

fn opts_of(state: &H263State, cmd: &Value) -> DecoderOption {
    let mut o = DecoderOption::empty();
    if state.is_sorenson() {
        o |= DecoderOption::SORENSON_SPARK_BITSTREAM;
    }
    if cmd["scal"].as_bool().unwrap_or(false) {
        o |= DecoderOption::USE_SCALABILITY_MODE;
    }
    o
}

fn fresh_reader(maxread: usize) -> (H263Reader<Growing>, Growing) {
    let g = Growing { data: Rc::new(RefCell::new((Vec::new(), 0, 0))), maxread };
    (H263Reader::from_source(g.clone()), g)
}

pub fn ptype_name(t: PictureTypeCode) -> String {
    match t {
        PictureTypeCode::IFrame => "I".into(),
        PictureTypeCode::PFrame => "P".into(),
        PictureTypeCode::DisposablePFrame => "D".into(),
        PictureTypeCode::PbFrame => "PB".into(),
        PictureTypeCode::ImprovedPbFrame => "IPB".into(),
        PictureTypeCode::BFrame => "B".into(),
        PictureTypeCode::EiFrame => "EI".into(),
        PictureTypeCode::EpFrame => "EP".into(),
        PictureTypeCode::Reserved(r) => format!("R{}", r),
    }
}

fn probe(r: &mut H263Reader<Growing>) -> Value {
    for w in [24u32, 16, 8, 4, 2, 1] {
        if let Ok(v) = r.peek_bits::<u32>(w) {
            return json!([w, v]);
        }
    }
    json!([0, 0])
}

/// Projects the decoder's observable state into the event.
fn observe(d: &mut Dec, ev: &mut Value, planes: bool) {
    let (last, refp, keys) = d.state.verif_abstract_state();
    ev["last"] = json!(last.map(|v| v as i64).unwrap_or(-1));
    ev["ref"] = json!(refp.map(|v| v as i64).unwrap_or(-1));
    ev["keys"] = json!(keys);
    match d.state.get_last_picture() {
        Some(p) => {
            ev["has_last"] = json!(true);
            let h = p.as_header();
            ev["hdr"] = json!({
                "tr": h.temporal_reference,
                "pt": ptype_name(h.picture_type),
                "q": h.quantizer,
                "db": if h.options.contains(h263_rs::PictureOption::USE_DEBLOCKER) {1} else {0},
            });
            let (w, hh) = p.format().into_width_and_height().unwrap_or((0, 0));
            ev["w"] = json!(w);
            ev["h"] = json!(hh);
            ev["cspr"] = json!(p.chroma_samples_per_row());
            let (y, cb, cr) = p.as_yuv();
            if planes {
                ev["y"] = json!(y);
                ev["cb"] = json!(cb);
                ev["cr"] = json!(cr);
            } else {
                ev["ylen"] = json!(y.len());
                ev["clen"] = json!(cb.len());
            }
        }
        None => {
            ev["has_last"] = json!(false);
        }
    }
    ev["ropt"] = json!(d.state.verif_running_options().bits());
    if !d.noprobe {
        ev["probe"] = probe(&mut d.reader);
    }
}

pub fn history(ctx: &mut Ctx, cmd: &Value) -> Vec<Value> {
    let mut ev = cmd.clone();
    let id = cmd["d"].as_i64().unwrap_or(0);
    let op = cmd["op"].as_str().unwrap_or("");
    let planes = cmd["planes"].as_bool().unwrap_or(true);
    match op {
        "new" => {
            let (reader, src) = fresh_reader(cmd["maxread"].as_u64().unwrap_or(0) as usize);
            ctx.decs.insert(id, Dec { state: H263State::new(opts(cmd)), reader, src, noprobe: cmd["noprobe"].as_bool().unwrap_or(false) });
            ev["ret"] = json!("ok");
            ev["rc"] = json!("ok");
        }
        "newreader" => match ctx.decs.get_mut(&id) {
            Some(d) => {
                let (reader, src) = fresh_reader(cmd["maxread"].as_u64().unwrap_or(d.src.maxread as u64) as usize);
                d.reader = reader;
                d.src = src;
                ev["ret"] = json!("ok");
                ev["rc"] = json!("ok");
            }
            None => ev["ret"] = json!("harness:no-such-decoder"),
        },
        "append" => match ctx.decs.get_mut(&id) {
            Some(d) => {
                let b = bytes(&cmd["bytes"]);
                let mut s = d.src.data.borrow_mut();
                s.0.extend_from_slice(&b);
                s.1 = s.0.len();
                ev["ret"] = json!("ok");
                ev["rc"] = json!("ok");
            }
            None => ev["ret"] = json!("harness:no-such-decoder"),
        },
        "decode" => match ctx.decs.get_mut(&id) {
            Some(d) => {
                // The property excludes inputs whose declared picture size would not fit in memory:
                // with "guard_size" the header is pre-parsed with the public parser on a copy of the
                // data and calls declaring more than 2^22 luma samples are skipped (and counted).
                // A skipped call delivers nothing: its bytes must not reach the reader either (in a
                // stream every later call would start at them).
                let mut skip = false;
                if cmd["guard_size"].as_bool().unwrap_or(false) {
                    let copy = bytes(&cmd["bytes"]);
                    let g = Growing { data: Rc::new(RefCell::new((copy.clone(), copy.len(), 0))), maxread: 0 };
                    let mut rd = H263Reader::from_source(g);
                    let prev = d.state.get_last_picture().map(|p| p.as_header());
                    let parsed = guarded(|| decode_picture(&mut rd, opts_of(&d.state, cmd), prev));
                    if let Ok(Ok(Some(p))) = parsed {
                        if let Some(f) = p.format {
                            if let Some((w, h)) = f.into_width_and_height() {
                                if (w as u64) * (h as u64) > (1u64 << 22) {
                                    skip = true;
                                }
                            }
                        }
                    }
                }
                if skip {
                    ev["ret"] = json!("skipped:declared-size-too-large");
                    ev["rc"] = json!("skip");
                    return vec![ev];
                }
                if !cmd["pre"].as_bool().unwrap_or(false) {
                    let b = bytes(&cmd["bytes"]);
                    let mut s = d.src.data.borrow_mut();
                    s.0.extend_from_slice(&b);
                    s.1 = s.0.len();
                }
                let r = guarded(|| d.state.decode_next_picture(&mut d.reader));
                match r {
                    Ok(Ok(())) => {
                        ev["ret"] = json!("ok");
                        ev["rc"] = json!("ok");
                    }
                    Ok(Err(e)) => {
                        ev["ret"] = json!(err_name(&e));
                        ev["rc"] = json!("err");
                    }
                    Err(m) => {
                        // "site" = source file and line of the panic, so that distinct defects stay distinct
                        let site = m.rsplit(" @ ").next().unwrap_or("").rsplit('/').next().unwrap_or("").to_string();
                        ev["ret"] = json!(format!("panic:{}", m));
                        ev["rc"] = json!("panic");
                        ev["site"] = json!(site);
                    }
                }
                if ev["rc"] != "panic" {
                    let o = guarded(|| observe(d, &mut ev, planes));
                    if let Err(m) = o {
                        ev["ret"] = json!(format!("panic:observe:{}", m));
                        ev["rc"] = json!("panic");
                    }
                } else {
                    // the decoder may be in any state after unwinding out of it: discard it
                    ctx.decs.remove(&id);
                }
            }
            None => ev["ret"] = json!("harness:no-such-decoder"),
        },
        "cleanup" => match ctx.decs.get_mut(&id) {
            Some(d) => {
                match guarded(|| d.state.cleanup_buffers()) {
                    Ok(()) => {
                        ev["ret"] = json!("ok");
                        ev["rc"] = json!("ok");
                        observe(d, &mut ev, planes);
                    }
                    Err(m) => {
                        ev["ret"] = json!(format!("panic:{}", m));
                        ev["rc"] = json!("panic");
                    }
                }
            }
            None => ev["ret"] = json!("harness:no-such-decoder"),
        },
        "post" => match ctx.decs.get_mut(&id) {
            // C13: deblock each plane with the strength tabulated for the picture's quantizer, convert
            Some(d) => {
                let r = guarded(|| {
                    let p = d.state.get_last_picture().expect("no picture");
                    let (w, ph) = p.format().into_width_and_height().unwrap();
                    let q = p.as_header().quantizer as usize;
                    let s = h263_rs_deblock::deblock::QUANT_TO_STRENGTH[q.min(31)];
                    let (y, cb, cr) = p.as_yuv();
                    let cw = p.chroma_samples_per_row();
                    let y2 = h263_rs_deblock::deblock::deblock(y, w as usize, s);
                    let cb2 = h263_rs_deblock::deblock::deblock(cb, cw, s);
                    let cr2 = h263_rs_deblock::deblock::deblock(cr, cw, s);
                    let rgba = h263_rs_yuv::bt601::yuv420_to_rgba(&y2, &cb2, &cr2, w as usize);
                    (s, y.to_vec(), cb.to_vec(), cr.to_vec(), cw, w, ph, q, rgba)
                });
                match r {
                    Ok((s, y, cb, cr, cw, w, ph, q, rgba)) => {
                        ev["ret"] = json!("ok");
                        ev["rc"] = json!("ok");
                        ev["s"] = json!(s);
                        ev["q"] = json!(q);
                        ev["w"] = json!(w);
                        ev["ph"] = json!(ph);
                        ev["cw"] = json!(cw);
                        ev["len"] = json!(rgba.len());
                        if cmd["lens"].as_bool().unwrap_or(false) {
                            // very large pictures: only the lengths are recorded
                            ev["ylen"] = json!(y.len());
                            ev["cblen"] = json!(cb.len());
                            ev["crlen"] = json!(cr.len());
                        } else {
                            ev["y"] = json!(y);
                            ev["cb"] = json!(cb);
                            ev["cr"] = json!(cr);
                            ev["out"] = json!(rgba
                                .chunks(4)
                                .map(|p| ((p[0] as i64) - 128) * 16_777_216 + (p[1] as i64) * 65_536 + (p[2] as i64) * 256 + p[3] as i64)
                                .collect::<Vec<_>>());
                        }
                    }
                    Err(m) => {
                        ev["ret"] = json!(format!("panic:{}", m));
                        ev["rc"] = json!("panic");
                    }
                }
            }
            None => ev["ret"] = json!("harness:no-such-decoder"),
        },
        _ => ev["ret"] = json!("harness:unknown-op"),
    }
    vec![ev]
}

/// {"op":"header","sor":..,"scal":..,"bytes":[..],"prev":{...}?}: parser::decode_picture alone.
pub fn header(cmd: &Value) -> Value {
    let mut ev = cmd.clone();
    let b = bytes(&cmd["bytes"]);
    let g = Growing { data: Rc::new(RefCell::new((b.clone(), b.len(), 0))), maxread: cmd["maxread"].as_u64().unwrap_or(0) as usize };
    let mut rd = H263Reader::from_source(g);
    let o = opts(cmd);
    let prev = build_prev(&cmd["prev"]);
    let r = guarded(|| decode_picture(&mut rd, o, prev.as_ref()));
    ev.as_object_mut().unwrap().remove("prev");
    match r {
        Ok(Ok(Some(p))) => {
            ev["ret"] = json!("ok");
            ev["rc"] = json!("ok");
            ev["got"] = picture_json(&p);
        }
        Ok(Ok(None)) => {
            ev["ret"] = json!("none");
            ev["rc"] = json!("none");
        }
        Ok(Err(e)) => {
            ev["ret"] = json!(err_name(&e));
            ev["rc"] = json!("err");
        }
        Err(m) => {
            ev["ret"] = json!(format!("panic:{}", m));
            ev["rc"] = json!("panic");
        }
    }
    ev["probe"] = probe(&mut rd);
    ev
}

fn build_prev(v: &Value) -> Option<hk::Picture> {
    if !v.is_object() {
        return None;
    }
    let fmt = match v["fmt"].as_i64().unwrap_or(-1) {
        1 => Some(hk::SourceFormat::SubQcif),
        2 => Some(hk::SourceFormat::QuarterCif),
        3 => Some(hk::SourceFormat::FullCif),
        4 => Some(hk::SourceFormat::FourCif),
        5 => Some(hk::SourceFormat::SixteenCif),
        6 => Some(hk::SourceFormat::Extended(hk::CustomPictureFormat {
            pixel_aspect_ratio: hk::PixelAspectRatio::Square,
            picture_width_indication: v["w"].as_u64().unwrap_or(16) as u16,
            picture_height_indication: v["h"].as_u64().unwrap_or(16) as u16,
        })),
        _ => None,
    };
    Some(hk::Picture {
        version: None,
        temporal_reference: 0,
        format: fmt,
        options: {
            let mut o = hk::PictureOption::from_bits_truncate(v["options"].as_u64().unwrap_or(0) as u32);
            if let Some(names) = v["optnames"].as_array() {
                for n in names {
                    if let Some(f) = hk::PictureOption::from_name(n.as_str().unwrap_or("")) {
                        o |= f;
                    }
                }
            }
            o
        },
        has_plusptype: v["plus"].as_bool().unwrap_or(true),
        has_opptype: v["opp"].as_bool().unwrap_or(true),
        picture_type: PictureTypeCode::IFrame,
        motion_vector_range: None,
        slice_submode: None,
        scalability_layer: None,
        reference_picture_selection_mode: None,
        prediction_reference: None,
        backchannel_message: None,
        reference_picture_resampling: None,
        quantizer: 1,
        multiplex_bitstream: None,
        pb_reference: None,
        pb_quantizer: None,
        extra: vec![],
    })
}

fn picture_json(p: &hk::Picture) -> Value {
    let (fmt, w, h, par, parw, parh) = match p.format {
        None => (-1, 0, 0, -1, 0, 0),
        Some(hk::SourceFormat::SubQcif) => (1, 128, 96, -1, 0, 0),
        Some(hk::SourceFormat::QuarterCif) => (2, 176, 144, -1, 0, 0),
        Some(hk::SourceFormat::FullCif) => (3, 352, 288, -1, 0, 0),
        Some(hk::SourceFormat::FourCif) => (4, 704, 576, -1, 0, 0),
        Some(hk::SourceFormat::SixteenCif) => (5, 1408, 1152, -1, 0, 0),
        Some(hk::SourceFormat::Reserved) => (0, 0, 0, -1, 0, 0),
        Some(hk::SourceFormat::Extended(c)) => {
            let (par, pw, ph) = match c.pixel_aspect_ratio {
                hk::PixelAspectRatio::Square => (1, 0, 0),
                hk::PixelAspectRatio::Par12_11 => (2, 0, 0),
                hk::PixelAspectRatio::Par10_11 => (3, 0, 0),
                hk::PixelAspectRatio::Par16_11 => (4, 0, 0),
                hk::PixelAspectRatio::Par40_33 => (5, 0, 0),
                hk::PixelAspectRatio::Reserved(r) => (r as i64, 0, 0),
                hk::PixelAspectRatio::Extended { par_width, par_height } => (15, par_width as i64, par_height as i64),
            };
            (6, c.picture_width_indication as i64, c.picture_height_indication as i64, par, pw, ph)
        }
    };
    json!({
        "version": p.version.map(|v| v as i64).unwrap_or(-1),
        "tr": p.temporal_reference,
        "fmt": fmt, "w": w, "h": h, "par": par, "parw": parw, "parh": parh,
        "options": p.options.bits(),
        "opts": p.options.iter_names().map(|(n, _)| n.to_string()).collect::<Vec<_>>(),
        "plus": p.has_plusptype,
        "opp": p.has_opptype,
        "pt": ptype_name(p.picture_type),
        "mvr": match p.motion_vector_range { None => -1, Some(hk::MotionVectorRange::Extended) => 1, Some(hk::MotionVectorRange::Unlimited) => 2 },
        "sss": p.slice_submode.as_ref().map(|s| s.iter_names().map(|(n, _)| n.to_string()).collect::<Vec<_>>()).unwrap_or(vec!["-".to_string()]),
        "elnum": p.scalability_layer.as_ref().map(|s| s.enhancement as i64).unwrap_or(-1),
        "rlnum": p.scalability_layer.as_ref().and_then(|s| s.reference).map(|v| v as i64).unwrap_or(-1),
        "rpsmf": p.reference_picture_selection_mode.as_ref().map(|s| s.iter_names().map(|(n, _)| n.to_string()).collect::<Vec<_>>()).unwrap_or(vec!["-".to_string()]),
        "trp": p.prediction_reference.map(|v| v as i64).unwrap_or(-1),
        "bcm": p.backchannel_message.is_some(),
        "rprp": p.reference_picture_resampling.is_some(),
        "q": p.quantizer,
        "psbi": p.multiplex_bitstream.map(|v| v as i64).unwrap_or(-1),
        "trb": p.pb_reference.map(|v| v as i64).unwrap_or(-1),
        "dbq": match p.pb_quantizer { None => -1, Some(hk::BPictureQuantizer::Five) => 0, Some(hk::BPictureQuantizer::Six) => 1,
                                      Some(hk::BPictureQuantizer::Seven) => 2, Some(hk::BPictureQuantizer::Eight) => 3 },
        "extra": p.extra,
    })
}

// ------------------------------------------------------------------ primitives through the hooks

fn block_from(v: &Value) -> hk::DecodedDctBlock {
    let c: Vec<f32> = ints(&v["c"]).into_iter().map(|x| x as f32).collect();
    match v["k"].as_str().unwrap_or("full") {
        "zero" => hk::DecodedDctBlock::Zero,
        "dc" => hk::DecodedDctBlock::Dc(c[0]),
        "horiz" => {
            let mut a = [0f32; 8];
            a.copy_from_slice(&c[0..8]);
            hk::DecodedDctBlock::Horiz(a)
        }
        "vert" => {
            let mut a = [0f32; 8];
            for i in 0..8 {
                a[i] = c[i * 8];
            }
            hk::DecodedDctBlock::Vert(a)
        }
        _ => {
            let mut a = [[0f32; 8]; 8];
            for r in 0..8 {
                for cc in 0..8 {
                    a[r][cc] = c[r * 8 + cc];
                }
            }
            hk::DecodedDctBlock::Full(a)
        }
    }
}

/// {"op":"idct","set":NAME,"blocks":[{"k":"full|dc|horiz|vert|zero","c":[64 ints row-major v*8+u]}..]}
/// Each block is transformed alone by idct_channel, once over an 8x8 output pre-filled with 0 and once
/// pre-filled with 255 (so the signed residual is observable through the unsigned, clipped output).
/// With "batch": true all blocks go through ONE idct_channel call, laid out "per_line" blocks to a row
/// (so whatever the transform carries from block to block inside a call is exercised); the event has
/// the same form, one 64-sample output per block.
pub fn idct(cmd: &Value) -> Value {
    let mut ev = cmd.clone();
    let blocks = cmd["blocks"].as_array().cloned().unwrap_or_default();
    if cmd["batch"].as_bool().unwrap_or(false) && !blocks.is_empty() {
        let per_line = (cmd["per_line"].as_u64().unwrap_or(blocks.len() as u64) as usize).clamp(1, blocks.len());
        run_idct_batch(&mut ev, &blocks, per_line);
    } else {
        run_idct(&mut ev, &blocks);
    }
    ev
}

fn run_idct_batch(ev: &mut Value, blocks: &[Value], per_line: usize) {
    let r = guarded(|| {
        let rows = (blocks.len() + per_line - 1) / per_line;
        let mut blks: Vec<hk::DecodedDctBlock> = blocks.iter().map(block_from).collect();
        while blks.len() < rows * per_line {
            blks.push(hk::DecodedDctBlock::Zero);
        }
        let width = per_line * 8;
        let mut outs = Vec::new();
        for fill in [0u8, 255u8] {
            let mut plane = vec![fill; width * rows * 8];
            hk::idct_channel(&blks, &mut plane, per_line, width);
            let mut per_block = Vec::new();
            for k in 0..blocks.len() {
                let (bx, by) = (k % per_line, k / per_line);
                let mut out = Vec::with_capacity(64);
                for y in 0..8 {
                    for x in 0..8 {
                        out.push(plane[(by * 8 + y) * width + bx * 8 + x]);
                    }
                }
                per_block.push(out);
            }
            outs.push(per_block);
        }
        let b = outs.pop().unwrap();
        let a = outs.pop().unwrap();
        (a, b)
    });
    match r {
        Ok((a, b)) => {
            ev["ret"] = json!("ok");
            ev["out0"] = json!(a);
            ev["out255"] = json!(b);
        }
        Err(m) => ev["ret"] = json!(format!("panic:{}", m)),
    }
}

fn run_idct(ev: &mut Value, blocks: &[Value]) {
    // "cw" x "ch" (default 8 x 8): the size of the output plane - a block at the right or bottom edge of a
    // picture whose size is not a multiple of 8 is written into fewer columns / rows.  The outputs are
    // reported in the 8 x 8 layout; positions outside the plane keep the pre-fill value.
    let cw = (ev["cw"].as_u64().unwrap_or(8) as usize).clamp(1, 8);
    let ch = (ev["ch"].as_u64().unwrap_or(8) as usize).clamp(1, 8);
    let r = guarded(|| {
        let mut o0 = Vec::new();
        let mut o255 = Vec::new();
        for b in blocks {
            let blk = [block_from(b)];
            for fill in [0u8, 255u8] {
                let mut plane = vec![fill; cw * ch];
                hk::idct_channel(&blk, &mut plane, 1, cw);
                let mut out = vec![fill; 64];
                for y in 0..ch {
                    for x in 0..cw {
                        out[y * 8 + x] = plane[y * cw + x];
                    }
                }
                if fill == 0 {
                    o0.push(out);
                } else {
                    o255.push(out);
                }
            }
        }
        (o0, o255)
    });
    match r {
        Ok((a, b)) => {
            ev["ret"] = json!("ok");
            ev["out0"] = json!(a);
            ev["out255"] = json!(b);
        }
        Err(m) => ev["ret"] = json!(format!("panic:{}", m)),
    }
}

fn classify(c: &[i64]) -> &'static str {
    let nz = |i: usize| c[i] != 0;
    let any_off_row = (8..64).any(nz);
    let any_off_col = (0..64).filter(|i| i % 8 != 0).any(nz);
    if !(0..64).any(nz) {
        "zero"
    } else if !any_off_row && !any_off_col {
        "dc"
    } else if !any_off_row {
        "horiz"
    } else if !any_off_col {
        "vert"
    } else {
        "full"
    }
}

/// {"op":"annexa","L":256,"H":255,"sign":1,"start":K,"n":N,"seed":1}: the input side of the H.263 Annex A
/// (IEEE 1180) procedure - pseudo-random pixel blocks from the prescribed generator, forward DCT in
/// double precision, rounding, clipping to -2048..2047 - and the real IDCT applied to each block.
/// The event is recorded as an "idct" event (the specification never sees how the inputs were made).
pub fn annexa(cmd: &Value) -> Value {
    let mut ev = cmd.clone();
    let l = cmd["L"].as_i64().unwrap_or(256);
    let h = cmd["H"].as_i64().unwrap_or(255);
    let sign = cmd["sign"].as_i64().unwrap_or(1);
    let start = cmd["start"].as_u64().unwrap_or(0) as usize;
    let n = cmd["n"].as_u64().unwrap_or(1) as usize;
    let mut randx: i32 = cmd["seed"].as_i64().unwrap_or(1) as i32;
    let z = 0x7fffffff as f64;
    let mut rnd = |lo: i64, hi: i64| -> i64 {
        randx = randx.wrapping_mul(1103515245).wrapping_add(12345);
        let j = (randx & 0x7ffffffe) as i64;
        let x = (j as f64) / z * ((hi - lo + 1) as f64);
        (x as i64) + lo
    };
    let mut blocks = Vec::new();
    for bi in 0..(start + n) {
        let mut px = [[0f64; 8]; 8];
        for row in px.iter_mut() {
            for v in row.iter_mut() {
                *v = (rnd(-l, h) * sign) as f64;
            }
        }
        if bi < start {
            continue;
        }
        let mut c = vec![0i64; 64];
        for v in 0..8 {
            for u in 0..8 {
                let mut acc = 0f64;
                for y in 0..8 {
                    for x in 0..8 {
                        acc += px[y][x]
                            * ((2 * x + 1) as f64 * u as f64 * std::f64::consts::PI / 16.0).cos()
                            * ((2 * y + 1) as f64 * v as f64 * std::f64::consts::PI / 16.0).cos();
                    }
                }
                let cu = if u == 0 { std::f64::consts::FRAC_1_SQRT_2 } else { 1.0 };
                let cv = if v == 0 { std::f64::consts::FRAC_1_SQRT_2 } else { 1.0 };
                let f = (0.25 * cu * cv * acc).round().clamp(-2048.0, 2047.0);
                c[v * 8 + u] = f as i64;
            }
        }
        blocks.push(json!({"k": classify(&c), "c": c}));
    }
    ev["op"] = json!("idct");
    ev["blocks"] = json!(blocks);
    run_idct(&mut ev, &blocks);
    ev
}

fn dct_block_json(b: &hk::DecodedDctBlock) -> Value {
    let mut c = vec![0i64; 64];
    let kind = match b {
        hk::DecodedDctBlock::Zero => "zero",
        hk::DecodedDctBlock::Dc(v) => {
            c[0] = *v as i64;
            "dc"
        }
        hk::DecodedDctBlock::Horiz(r) => {
            for i in 0..8 {
                c[i] = r[i] as i64;
            }
            "horiz"
        }
        hk::DecodedDctBlock::Vert(r) => {
            for i in 0..8 {
                c[i * 8] = r[i] as i64;
            }
            "vert"
        }
        hk::DecodedDctBlock::Full(m) => {
            for r in 0..8 {
                for cc in 0..8 {
                    c[r * 8 + cc] = m[r][cc] as i64;
                }
            }
            "full"
        }
    };
    json!({"k": kind, "c": c})
}

/// {"op":"rle","q":Q,"dc":code|-1,"ev":[[run,level],..]} -> coefficients produced by inverse_rle
pub fn rle(cmd: &Value) -> Value {
    let mut ev = cmd.clone();
    let q = cmd["q"].as_u64().unwrap_or(1) as u8;
    let dc = cmd["dc"].as_i64().unwrap_or(-1);
    let evs: Vec<(u8, i16)> = cmd["ev"]
        .as_array()
        .map(|a| a.iter().map(|e| (e[0].as_u64().unwrap_or(0) as u8, e[1].as_i64().unwrap_or(0) as i16)).collect())
        .unwrap_or_default();
    let r = guarded(|| {
        let block = hk::Block {
            intradc: if dc >= 0 { hk::IntraDc::from_u8(dc as u8) } else { None },
            tcoef: evs.iter().map(|(run, level)| hk::TCoefficient { is_short: false, run: *run, level: *level }).collect(),
        };
        let mut levels = vec![hk::DecodedDctBlock::Zero; 1];
        hk::inverse_rle(&block, &mut levels, (0, 0), 1, q);
        (dct_block_json(&levels[0]), block.intradc.is_some())
    });
    match r {
        Ok((b, dc_ok)) => {
            ev["ret"] = json!("ok");
            ev["blk"] = b;
            ev["dc_accepted"] = json!(dc_ok);
        }
        Err(m) => ev["ret"] = json!(format!("panic:{}", m)),
    }
    ev
}

fn mv_from(v: &Value) -> hk::MotionVector {
    (hk::HalfPel::from_unit(v[0].as_i64().unwrap_or(0) as i16), hk::HalfPel::from_unit(v[1].as_i64().unwrap_or(0) as i16)).into()
}

fn hp_units(h: hk::HalfPel) -> i64 {
    let (whole, half) = h.into_lerp_parameters();
    (whole as i64) * 2 + if half { 1 } else { 0 }
}

fn mv_json(m: hk::MotionVector) -> Value {
    let (x, y): (hk::HalfPel, hk::HalfPel) = m.into();
    json!([hp_units(x), hp_units(y)])
}

fn dummy_picture() -> hk::DecodedPicture {
    let hdr = build_prev(&json!({"fmt": 6, "w": 16, "h": 16, "plus": false, "opp": false})).unwrap();
    let fmt = hdr.format.unwrap();
    hk::DecodedPicture::new(hdr, fmt).unwrap()
}

/// {"op":"mv","pairs":[[pred,diff],..]} -> mv_decode component results (standard range, no options)
pub fn mv(cmd: &Value) -> Value {
    let mut ev = cmd.clone();
    let pairs = cmd["pairs"].as_array().cloned().unwrap_or_default();
    let r = guarded(|| {
        let pic = dummy_picture();
        let mut out = Vec::new();
        for p in &pairs {
            let pred = p[0].as_i64().unwrap() as i16;
            let diff = p[1].as_i64().unwrap() as i16;
            let m = hk::mv_decode(
                &pic,
                h263_rs::PictureOption::empty(),
                (hk::HalfPel::from_unit(pred), hk::HalfPel::from_unit(diff)).into(),
                (hk::HalfPel::from_unit(diff), hk::HalfPel::from_unit(pred)).into(),
            );
            out.push(mv_json(m));
        }
        out
    });
    match r {
        Ok(o) => {
            ev["ret"] = json!("ok");
            ev["out"] = json!(o);
        }
        Err(m) => ev["ret"] = json!(format!("panic:{}", m)),
    }
    ev
}

/// {"op":"cand","mbw":W,"mvs":[[[x,y]x4]..],"cur":[[x,y]x4],"blk":B} -> predict_candidate
pub fn cand(cmd: &Value) -> Value {
    let mut ev = cmd.clone();
    let mbw = cmd["mbw"].as_u64().unwrap_or(1) as usize;
    let blk = cmd["blk"].as_u64().unwrap_or(0) as usize;
    let four = |v: &Value| -> [hk::MotionVector; 4] { [mv_from(&v[0]), mv_from(&v[1]), mv_from(&v[2]), mv_from(&v[3])] };
    let mvs: Vec<[hk::MotionVector; 4]> = cmd["mvs"].as_array().map(|a| a.iter().map(four).collect()).unwrap_or_default();
    let cur = four(&cmd["cur"]);
    match guarded(|| hk::predict_candidate(&mvs, &cur, mbw, blk)) {
        Ok(m) => {
            ev["ret"] = json!("ok");
            ev["out"] = mv_json(m);
        }
        Err(m) => ev["ret"] = json!(format!("panic:{}", m)),
    }
    ev
}

/// {"op":"chroma_mv","sums":[..]} -> MotionVector::average_sum_of_mvs per component
pub fn chroma_mv(cmd: &Value) -> Value {
    let mut ev = cmd.clone();
    let sums = ints(&cmd["sums"]);
    match guarded(|| sums.iter().map(|s| hp_units(hk::HalfPel::from_unit(*s as i16).average_sum_of_mvs())).collect::<Vec<_>>()) {
        Ok(o) => {
            ev["ret"] = json!("ok");
            ev["out"] = json!(o);
        }
        Err(m) => ev["ret"] = json!(format!("panic:{}", m)),
    }
    ev
}


// ------------------------------------------------------------------ C17: several instances on several threads

fn digest(ev: &Value) -> Value {
    // FNV-1a over the observable part of the event (outcome, state, header, planes, probe)
    let mut h: u64 = 0xcbf29ce484222325;
    for k in ["ret", "last", "ref", "keys", "has_last", "hdr", "w", "h", "cspr", "y", "cb", "cr", "probe", "ropt"] {
        let s = ev[k].to_string();
        for b in s.as_bytes() {
            h ^= *b as u64;
            h = h.wrapping_mul(0x100000001b3);
        }
        h ^= 0xff;
        h = h.wrapping_mul(0x100000001b3);
    }
    json!([(h >> 34) as i64, ((h >> 4) & 0x3fff_ffff) as i64])
}

/// {"op":"threads","insts":[[cmd..]..],"order":[i..]|null,"groups":[[i,j..]..]}
/// Every instance lives on its own thread.  With "order" a turnstile forces exactly that
/// interleaving of calls; without it the threads run freely.
pub fn threads(cmd: &Value) -> Vec<Value> {
    use std::sync::{Arc, Condvar, Mutex};
    let mut ev = cmd.clone();
    let insts: Vec<Vec<Value>> = cmd["insts"]
        .as_array()
        .map(|a| a.iter().map(|x| x.as_array().cloned().unwrap_or_default()).collect())
        .unwrap_or_default();
    let order: Option<Vec<usize>> = cmd["order"].as_array().map(|a| a.iter().map(|x| x.as_u64().unwrap_or(0) as usize).collect());
    // "single": all instances live on ONE thread and their calls are interleaved in the given order
    // (thread-local or otherwise per-thread state would be shared between them)
    if cmd["single"].as_bool().unwrap_or(false) {
        let ord = order.clone().unwrap_or_default();
        let mut ctxs: Vec<Ctx> = insts.iter().map(|_| Ctx::default()).collect();
        let mut next: Vec<usize> = insts.iter().map(|_| 0).collect();
        let mut all: Vec<Vec<Value>> = insts.iter().map(|_| Vec::new()).collect();
        for i in ord {
            if i < insts.len() && next[i] < insts[i].len() {
                let mut evs = history(&mut ctxs[i], &insts[i][next[i]]);
                next[i] += 1;
                for e in evs.iter_mut() {
                    e["digest"] = digest(e);
                }
                all[i].extend(evs);
            }
        }
        ev["ret"] = json!("ok");
        ev["evs"] = json!(all);
        ev.as_object_mut().unwrap().remove("insts");
        return vec![ev];
    }
    let turn = Arc::new((Mutex::new(0usize), Condvar::new()));
    let mut handles = Vec::new();
    for (i, cmds) in insts.into_iter().enumerate() {
        let turn = turn.clone();
        let order = order.clone();
        handles.push(
            std::thread::Builder::new()
                .stack_size(16 << 20)
                .spawn(move || {
                    let mut ctx = Ctx::default();
                    let mut out = Vec::new();
                    for c in cmds.iter() {
                        if let Some(ord) = &order {
                            let (m, cv) = &*turn;
                            let mut t = m.lock().unwrap();
                            while *t < ord.len() && ord[*t] != i {
                                t = cv.wait(t).unwrap();
                            }
                            drop(t);
                        }
                        let mut evs = history(&mut ctx, c);
                        for e in evs.iter_mut() {
                            e["digest"] = digest(e);
                        }
                        out.extend(evs);
                        if order.is_some() {
                            let (m, cv) = &*turn;
                            let mut t = m.lock().unwrap();
                            *t += 1;
                            cv.notify_all();
                        }
                    }
                    out
                })
                .unwrap(),
        );
    }
    let mut all = Vec::new();
    let mut ok = true;
    for h in handles {
        match h.join() {
            Ok(v) => all.push(v),
            Err(_) => {
                ok = false;
                all.push(vec![]);
            }
        }
    }
    ev["ret"] = json!(if ok { "ok" } else { "thread-panicked" });
    ev["evs"] = json!(all);
    ev.as_object_mut().unwrap().remove("insts");
    vec![ev]
}


// ------------------------------------------------------------------ parser-level observation

fn mbtype_index(t: hk::MacroblockType) -> i64 {
    match t {
        hk::MacroblockType::Inter => 0,
        hk::MacroblockType::InterQ => 1,
        hk::MacroblockType::Inter4V => 2,
        hk::MacroblockType::Intra => 3,
        hk::MacroblockType::IntraQ => 4,
        hk::MacroblockType::Inter4Vq => 5,
    }
}

/// {"op":"parse","sor":..,"bytes":[..],"pic":{..}}: the public parser functions on their own -
/// decode_picture, then decode_macroblock / decode_block x 6 until `nmb` macroblocks or an error.
/// Records what the parser returned, macroblock by macroblock (no reconstruction involved).
pub fn parse(cmd: &Value) -> Value {
    use h263_rs::parser::{decode_block, decode_macroblock};
    let mut ev = cmd.clone();
    let b = bytes(&cmd["bytes"]);
    let nmb = cmd["nmb"].as_u64().unwrap_or(0) as usize;
    let g = Growing { data: Rc::new(RefCell::new((b.clone(), b.len(), 0))), maxread: 0 };
    let mut rd = H263Reader::from_source(g);
    let o = opts(cmd);
    let r = guarded(|| {
        let mut out: Vec<Value> = Vec::new();
        let pic = match decode_picture(&mut rd, o, None) {
            Ok(Some(p)) => p,
            Ok(None) => return (out, "header:none".to_string()),
            Err(e) => return (out, format!("header:{}", err_name(&e))),
        };
        let mut real = 0usize;
        while real < nmb {
            match decode_macroblock(&mut rd, &pic, pic.options) {
                Ok(hk::Macroblock::Stuffing) => out.push(json!({"k":"stuff"})),
                Ok(hk::Macroblock::Uncoded) => {
                    out.push(json!({"k":"skip"}));
                    real += 1;
                }
                Ok(hk::Macroblock::Coded { mb_type, coded_block_pattern, d_quantizer, motion_vector, addl_motion_vectors, .. }) => {
                    let mut mvd = Vec::new();
                    if let Some(m) = motion_vector {
                        mvd.push(mv_json(m));
                    }
                    if let Some(ms) = addl_motion_vectors {
                        for m in ms.iter() {
                            mvd.push(mv_json(*m));
                        }
                    }
                    let cl = coded_block_pattern.codes_luma;
                    let cbpy = (cl[0] as i64) * 8 + (cl[1] as i64) * 4 + (cl[2] as i64) * 2 + (cl[3] as i64);
                    let cbpc = (coded_block_pattern.codes_chroma_b as i64) * 2 + (coded_block_pattern.codes_chroma_r as i64);
                    let flags = [cl[0], cl[1], cl[2], cl[3], coded_block_pattern.codes_chroma_b, coded_block_pattern.codes_chroma_r];
                    let mut blocks = Vec::new();
                    for f in flags.iter() {
                        match decode_block(&mut rd, o, &pic, pic.options, mb_type, *f) {
                            Ok(blk) => blocks.push(json!({
                                "dc": blk.intradc.map(|d| if d.into_level() == 1024 { 255 } else { (d.into_level() / 8) as i64 }).unwrap_or(-1),
                                "ev": blk.tcoef.iter().map(|t| json!([if t.is_short {1} else {0}, t.run, t.level])).collect::<Vec<_>>(),
                            })),
                            Err(e) => {
                                out.push(json!({"k":"mb","t":mbtype_index(mb_type),"cbpc":cbpc,"cbpy":cbpy,"dq":d_quantizer.unwrap_or(0),"mvd":mvd,"b":blocks}));
                                return (out, format!("block:{}", err_name(&e)));
                            }
                        }
                    }
                    out.push(json!({"k":"mb","t":mbtype_index(mb_type),"cbpc":cbpc,"cbpy":cbpy,"dq":d_quantizer.unwrap_or(0),"mvd":mvd,"b":blocks}));
                    real += 1;
                }
                Err(e) => return (out, format!("macroblock:{}", err_name(&e))),
            }
        }
        (out, "done".to_string())
    });
    match r {
        Ok((mbs, end)) => {
            ev["ret"] = json!("ok");
            ev["rc"] = json!("ok");
            ev["parsed"] = json!(mbs);
            ev["end"] = json!(end);
            ev["probe"] = probe(&mut rd);
        }
        Err(m) => {
            ev["ret"] = json!(format!("panic:{}", m));
            ev["rc"] = json!("panic");
        }
    }
    ev
}
