use serde_json::{json, Value};
#[derive(Default)]
pub struct Ctx {}
fn stub(cmd: &Value) -> Value {
    let mut ev = cmd.clone();
    ev["ret"] = json!("harness:unimplemented");
    ev
}
pub fn idct(cmd: &Value) -> Value { stub(cmd) }
pub fn rle(cmd: &Value) -> Value { stub(cmd) }
pub fn mv(cmd: &Value) -> Value { stub(cmd) }
pub fn cand(cmd: &Value) -> Value { stub(cmd) }
pub fn chroma_mv(cmd: &Value) -> Value { stub(cmd) }
pub fn header(cmd: &Value) -> Value { stub(cmd) }
pub fn history(_ctx: &mut Ctx, cmd: &Value) -> Vec<Value> { vec![stub(cmd)] }
