//! Drivers for the two stateless crates: colour conversion and deblocking.

use crate::{bytes, guarded};
use serde_json::{json, Value};

fn pack(px: &[u8]) -> i64 {
    // (R-128)*2^24 + G*2^16 + B*2^8 + A : fits TLC's signed 32-bit integers
    ((px[0] as i64) - 128) * 16_777_216 + (px[1] as i64) * 65_536 + (px[2] as i64) * 256 + px[3] as i64
}

/// {"op":"yuv","w":W,"y":[..],"cb":[..],"cr":[..]} -> "out": packed pixels, "len": byte length
pub fn yuv(cmd: &Value) -> Value {
    let mut ev = cmd.clone();
    let w = cmd["w"].as_u64().unwrap_or(0) as usize;
    let y = bytes(&cmd["y"]);
    let cb = bytes(&cmd["cb"]);
    let cr = bytes(&cmd["cr"]);
    match guarded(|| h263_rs_yuv::bt601::yuv420_to_rgba(&y, &cb, &cr, w)) {
        Ok(out) => {
            ev["ret"] = json!("ok");
            ev["len"] = json!(out.len());
            ev["out"] = json!(out.chunks(4).filter(|c| c.len() == 4).map(pack).collect::<Vec<_>>());
        }
        Err(m) => {
            ev["ret"] = json!(format!("panic:{}", m));
        }
    }
    ev
}

/// {"op":"yuv_sweep","ys":[y0..y(w-1)]}: for every (cb, cr) the w x 1 picture (w = number of luma values, 1..8)
/// y = ys, chroma sample j = sweep_c(cb, j) / sweep_c(cr, j) (neighbouring chroma samples differ, so each pixel pair
/// must use its own); "px"[(cb*256+cr)*w + k] is pixel k.  Widths that are not multiples of 4 reach the code that
/// converts the pixels left over after the last whole group of four.
fn sweep_c(v: u8, j: usize, same: bool) -> u8 {
    if same {
        return v; // "same": all chroma samples of the row are equal (flat chroma, e.g. neutral everywhere)
    }
    let base = if j % 2 == 0 { v as usize } else { 255 - v as usize };
    ((base + 64 * (j / 2)) % 256) as u8
}

pub fn yuv_sweep(cmd: &Value) -> Value {
    let mut ev = cmd.clone();
    let ys = bytes(&cmd["ys"]);
    let w = ys.len();
    let cw = (w + 1) / 2;
    let same = cmd["same"].as_bool().unwrap_or(false);
    let r = guarded(|| {
        let mut px = Vec::with_capacity(65536 * w);
        let mut lens_ok = true;
        for cb in 0..=255u8 {
            for cr in 0..=255u8 {
                let cbs: Vec<u8> = (0..cw).map(|j| sweep_c(cb, j, same)).collect();
                let crs: Vec<u8> = (0..cw).map(|j| sweep_c(cr, j, same)).collect();
                let out = h263_rs_yuv::bt601::yuv420_to_rgba(&ys, &cbs, &crs, w);
                if out.len() != 4 * w {
                    lens_ok = false;
                    px.extend(std::iter::repeat(0).take(w));
                    continue;
                }
                for c in out.chunks(4) {
                    px.push(pack(c));
                }
            }
        }
        (px, lens_ok)
    });
    match r {
        Ok((px, lens_ok)) => {
            ev["ret"] = json!(if lens_ok { "ok" } else { "badlen" });
            ev["px"] = json!(px);
        }
        Err(m) => ev["ret"] = json!(format!("panic:{}", m)),
    }
    ev
}

/// {"op":"deblock","w":W,"s":S,"data":[..]} -> "out":[..], "same_input": input slice unchanged
pub fn deblock(cmd: &Value) -> Value {
    let mut ev = cmd.clone();
    let w = cmd["w"].as_u64().unwrap_or(0) as usize;
    let s = cmd["s"].as_u64().unwrap_or(0) as u8;
    let data = bytes(&cmd["data"]);
    let before = data.clone();
    match guarded(|| h263_rs_deblock::deblock::deblock(&data, w, s)) {
        Ok(out) => {
            ev["ret"] = json!("ok");
            ev["out"] = json!(out);
            ev["input_unchanged"] = json!(data == before);
        }
        Err(m) => ev["ret"] = json!(format!("panic:{}", m)),
    }
    ev
}

pub fn strength_table(cmd: &Value) -> Value {
    let mut ev = cmd.clone();
    ev["ret"] = json!("ok");
    ev["table"] = json!(h263_rs_deblock::deblock::QUANT_TO_STRENGTH.to_vec());
    ev
}
