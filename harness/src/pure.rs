//! Drivers for the two stateless crates: colour conversion and deblocking.

use crate::{bytes, guarded};
use serde_json::{json, Value};

fn pack(px: &[u8]) -> i64 {
    // (R-128)*2^24 + G*2^16 + B*2^8 + A : fits TLC's signed 32-bit integers
    ((px[0] as i64) - 128) * 16_777_216 + (px[1] as i64) * 65_536 + (px[2] as i64) * 256 + px[3] as i64
}

/// {"op":"yuv","w":W,"y":[..],"cb":[..],"cr":[..]} -> "out": packed pixels, "len": byte length
pub fn yuv(cmd: &Value) -> Value {
    let mut ev = cmd.clone();
    let w = cmd["w"].as_u64().unwrap_or(0) as usize;
    let y = bytes(&cmd["y"]);
    let cb = bytes(&cmd["cb"]);
    let cr = bytes(&cmd["cr"]);
    match guarded(|| h263_rs_yuv::bt601::yuv420_to_rgba(&y, &cb, &cr, w)) {
        Ok(out) => {
            ev["ret"] = json!("ok");
            ev["len"] = json!(out.len());
            ev["out"] = json!(out.chunks(4).filter(|c| c.len() == 4).map(pack).collect::<Vec<_>>());
        }
        Err(m) => {
            ev["ret"] = json!(format!("panic:{}", m));
        }
    }
    ev
}

/// {"op":"yuv_sweep","ys":[y0,y1,y2,y3]}: for every (cb, cr) the 4x1 picture
/// y = ys, cb = [cb, 255-cb], cr = [cr, 255-cr] (the two chroma samples differ, so each half of the
/// group must use its own); "px"[(cb*256+cr)*4 + k] is pixel k.
pub fn yuv_sweep(cmd: &Value) -> Value {
    let mut ev = cmd.clone();
    let ys = bytes(&cmd["ys"]);
    let r = guarded(|| {
        let mut px = Vec::with_capacity(65536 * 4);
        let mut lens_ok = true;
        for cb in 0..=255u8 {
            for cr in 0..=255u8 {
                let out = h263_rs_yuv::bt601::yuv420_to_rgba(&ys, &[cb, 255 - cb], &[cr, 255 - cr], 4);
                if out.len() != 16 {
                    lens_ok = false;
                    px.extend_from_slice(&[0, 0, 0, 0]);
                    continue;
                }
                for c in out.chunks(4) {
                    px.push(pack(c));
                }
            }
        }
        (px, lens_ok)
    });
    match r {
        Ok((px, lens_ok)) => {
            ev["ret"] = json!(if lens_ok { "ok" } else { "badlen" });
            ev["px"] = json!(px);
        }
        Err(m) => ev["ret"] = json!(format!("panic:{}", m)),
    }
    ev
}

/// {"op":"deblock","w":W,"s":S,"data":[..]} -> "out":[..], "same_input": input slice unchanged
pub fn deblock(cmd: &Value) -> Value {
    let mut ev = cmd.clone();
    let w = cmd["w"].as_u64().unwrap_or(0) as usize;
    let s = cmd["s"].as_u64().unwrap_or(0) as u8;
    let data = bytes(&cmd["data"]);
    let before = data.clone();
    match guarded(|| h263_rs_deblock::deblock::deblock(&data, w, s)) {
        Ok(out) => {
            ev["ret"] = json!("ok");
            ev["out"] = json!(out);
            ev["input_unchanged"] = json!(data == before);
        }
        Err(m) => ev["ret"] = json!(format!("panic:{}", m)),
    }
    ev
}

pub fn strength_table(cmd: &Value) -> Value {
    let mut ev = cmd.clone();
    ev["ret"] = json!("ok");
    ev["table"] = json!(h263_rs_deblock::deblock::QUANT_TO_STRENGTH.to_vec());
    ev
}
