//! `drv` — the conformance driver of the h263-rs verification harness.
//!
//! It contains no expected values and no reference decoder.  It reads
//! commands (one JSON object per line), runs the real code of /repo on the
//! inputs the command carries, and writes what happened (one JSON event per
//! line).  Panics, overflow traps and failed debug assertions in the code
//! under test are *data*: they are recorded as the event's outcome.  The
//! events are judged by TLC against the TLA+ specification in /verif/spec.

mod dec;
mod pure;
mod rdr;

use serde_json::{json, Value};
use std::io::{BufRead, BufReader, BufWriter, Write};
use std::panic::{catch_unwind, AssertUnwindSafe};
use std::sync::atomic::{AtomicU64, Ordering};
use std::sync::{Arc, Mutex};

/// Runs `f`, converting a panic into `Err(message)`.
pub fn guarded<T>(f: impl FnOnce() -> T) -> Result<T, String> {
    match catch_unwind(AssertUnwindSafe(f)) {
        Ok(v) => Ok(v),
        Err(e) => {
            let msg = if let Some(s) = e.downcast_ref::<&str>() {
                s.to_string()
            } else if let Some(s) = e.downcast_ref::<String>() {
                s.clone()
            } else {
                "non-string panic payload".to_string()
            };
            let loc = LAST_PANIC_LOC.lock().unwrap().clone();
            Err(format!("{} @ {}", msg, loc))
        }
    }
}

static LAST_PANIC_LOC: Mutex<String> = Mutex::new(String::new());
/// directory of the events file: scratch files of `run_fresh` live next to it
static SCRATCH_DIR: Mutex<String> = Mutex::new(String::new());

fn main() {
    let args: Vec<String> = std::env::args().collect();
    if args.len() < 3 {
        eprintln!("usage: drv <commands.ndjson> <events.ndjson> [timeout_ms]");
        std::process::exit(2);
    }
    let timeout_ms: u64 = args.get(3).and_then(|s| s.parse().ok()).unwrap_or(20_000);
    std::panic::set_hook(Box::new(|info| {
        let loc = info
            .location()
            .map(|l| format!("{}:{}", l.file(), l.line()))
            .unwrap_or_default();
        *LAST_PANIC_LOC.lock().unwrap() = loc;
    }));

    *SCRATCH_DIR.lock().unwrap() = std::path::Path::new(&args[2])
        .parent()
        .map(|p| p.to_string_lossy().to_string())
        .filter(|p| !p.is_empty())
        .unwrap_or_else(|| ".".to_string());
    let input = BufReader::new(std::fs::File::open(&args[1]).expect("open commands"));
    let out = Arc::new(Mutex::new(BufWriter::new(
        std::fs::File::create(&args[2]).expect("create events"),
    )));

    // Watchdog: a command that does not return within the limit is recorded
    // as `timeout` and the process exits with status 3; the orchestrator
    // restarts the driver after that command.
    let started = Arc::new(AtomicU64::new(0)); // 0 = idle, else ms since epoch+1
    let current = Arc::new(Mutex::new(Value::Null));
    {
        let started = started.clone();
        let current = current.clone();
        let out = out.clone();
        std::thread::spawn(move || loop {
            std::thread::sleep(std::time::Duration::from_millis(100));
            let s = started.load(Ordering::SeqCst);
            if s != 0 && now_ms().saturating_sub(s) > timeout_ms {
                let cmd = current.lock().unwrap().clone();
                let mut ev = cmd;
                ev["ret"] = json!("timeout");
                ev["rc"] = json!("timeout");
                let mut o = out.lock().unwrap();
                let _ = writeln!(o, "{}", ev);
                let _ = o.flush();
                std::process::exit(3);
            }
        });
    }

    let mut ctx = dec::Ctx::default();
    for line in input.lines() {
        let line = line.expect("read");
        if line.trim().is_empty() {
            continue;
        }
        let cmd: Value = serde_json::from_str(&line).expect("command is JSON");
        *current.lock().unwrap() = cmd.clone();
        started.store(now_ms().max(1), Ordering::SeqCst);
        let evs = dispatch(&mut ctx, &cmd);
        started.store(0, Ordering::SeqCst);
        let mut o = out.lock().unwrap();
        for ev in evs {
            writeln!(o, "{}", ev).unwrap();
        }
        // flush per command: if the code under test kills the process, the events so far must be on disk
        o.flush().unwrap();
    }
    out.lock().unwrap().flush().unwrap();
}

fn now_ms() -> u64 {
    std::time::SystemTime::now()
        .duration_since(std::time::UNIX_EPOCH)
        .unwrap()
        .as_millis() as u64
}

/// A command carrying "fresh": true is executed by a NEW driver process (this executable, started on a
/// one-command file), so that nothing an earlier command may have left behind in process-wide or
/// per-thread state of the code under test can reach it.  The events are relayed unchanged.
fn run_fresh(cmd: &Value) -> Vec<Value> {
    let mut inner = cmd.clone();
    inner.as_object_mut().map(|o| o.remove("fresh"));
    let fail = |what: String| {
        let mut ev = cmd.clone();
        ev["ret"] = json!(format!("harness:fresh:{}", what));
        vec![ev]
    };
    let dir = std::path::PathBuf::from(SCRATCH_DIR.lock().unwrap().clone());
    let tag = format!("drv-fresh-{}-{}", std::process::id(), now_ms());
    let (inp, outp) = (dir.join(format!("{}.in", tag)), dir.join(format!("{}.out", tag)));
    if std::fs::write(&inp, format!("{}\n", inner)).is_err() {
        return fail("write".into());
    }
    let exe = match std::env::current_exe() {
        Ok(e) => e,
        Err(e) => return fail(e.to_string()),
    };
    let st = std::process::Command::new(exe).arg(&inp).arg(&outp).arg("60000").status();
    let text = std::fs::read_to_string(&outp).unwrap_or_default();
    let _ = std::fs::remove_file(&inp);
    let _ = std::fs::remove_file(&outp);
    let mut evs: Vec<Value> = text.lines().filter_map(|l| serde_json::from_str(l).ok()).collect();
    if evs.is_empty() {
        return fail(format!("no events (status {:?})", st.map(|s| s.code())));
    }
    for ev in evs.iter_mut() {
        ev["fresh"] = json!(true);
    }
    evs
}

fn dispatch(ctx: &mut dec::Ctx, cmd: &Value) -> Vec<Value> {
    let op = cmd["op"].as_str().unwrap_or("");
    if cmd["fresh"].as_bool().unwrap_or(false) {
        return run_fresh(cmd);
    }
    match op {
        "yuv" => vec![pure::yuv(cmd)],
        "yuv_sweep" => vec![pure::yuv_sweep(cmd)],
        "deblock" => vec![pure::deblock(cmd)],
        "strength_table" => vec![pure::strength_table(cmd)],
        "reader" => vec![rdr::reader(cmd)],
        "idct" => vec![dec::idct(cmd)],
        "annexa" => vec![dec::annexa(cmd)],
        "rle" => vec![dec::rle(cmd)],
        "mv" => vec![dec::mv(cmd)],
        "cand" => vec![dec::cand(cmd)],
        "chroma_mv" => vec![dec::chroma_mv(cmd)],
        "header" => vec![dec::header(cmd)],
        "parse" => vec![dec::parse(cmd)],
        "new" | "newreader" | "decode" | "cleanup" | "append" | "post" => {
            dec::history(ctx, cmd)
        }
        "threads" => dec::threads(cmd),
        _ => {
            let mut ev = cmd.clone();
            ev["ret"] = json!("harness:unknown-op");
            vec![ev]
        }
    }
}

pub fn ints(v: &Value) -> Vec<i64> {
    v.as_array()
        .map(|a| a.iter().map(|x| x.as_i64().unwrap_or(0)).collect())
        .unwrap_or_default()
}

pub fn bytes(v: &Value) -> Vec<u8> {
    ints(v).into_iter().map(|x| x as u8).collect()
}
