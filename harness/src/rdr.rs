//! Interpreter for bit-reader operation sequences (property C14).
//!
//! {"op":"reader","src":[bytes],"avail":N,"entries":[["F",zero,one]|["E",value],..],
//!  "ops":[["read",n,"u8"],["begin","txn","v"],["end","err"],...]}
//!
//! Transactions are real nested closures (`with_transaction`, `with_transaction_union`,
//! `with_lookahead`): a `begin` op opens one, the matching `end` op makes the closure
//! return Ok / Err / Ok(None).  Every executed op records its result and a
//! non-consuming probe of the following bits.

use crate::guarded;
use h263_rs::parser::H263Reader;
use h263_rs::verif_hooks::Entry;
use h263_rs::Error;
use serde_json::{json, Value};
use std::cell::RefCell;
use std::io::Read;
use std::rc::Rc;

/// A source that can receive more data later.
#[derive(Clone)]
pub struct Growing {
    pub data: Rc<RefCell<(Vec<u8>, usize, usize)>>, // bytes, available, consumed
    /// 0 = hand out as much as is asked for and available; k > 0 = at most k bytes per `read` call
    /// (a pipe, socket or small BufReader behaves like that): the bytes delivered are the same.
    pub maxread: usize,
}

impl Read for Growing {
    fn read(&mut self, buf: &mut [u8]) -> std::io::Result<usize> {
        let mut d = self.data.borrow_mut();
        let mut n = buf.len().min(d.1.saturating_sub(d.2));
        if self.maxread > 0 {
            n = n.min(self.maxread);
        }
        let from = d.2;
        buf[..n].copy_from_slice(&d.0[from..from + n]);
        d.2 += n;
        Ok(n)
    }
}

pub fn err_name(e: &Error) -> String {
    if e.is_eof_error() {
        return "eof".into();
    }
    if let Error::UnhandledIoError(_) = e {
        return "err:UnhandledIoError".into();
    }
    match e {
        Error::InternalDecoderError => "internal".into(),
        other => {
            let s = format!("{:?}", other);
            let name: String = s.chars().take_while(|c| c.is_alphanumeric()).collect();
            format!("err:{}", name)
        }
    }
}

fn hi_lo(v: u64) -> Value {
    json!([(v >> 16) as i64, (v & 0xFFFF) as i64])
}

struct Interp<'a> {
    ops: &'a [Value],
    res: Vec<Value>,
    entries: Vec<Entry<i64>>,
    src: Growing,
}

type R = H263Reader<Growing>;

fn probe(r: &mut R) -> Value {
    for w in [24u32, 16, 8, 4, 2, 1] {
        if let Ok(v) = r.peek_bits::<u32>(w) {
            return json!([w, v]);
        }
    }
    json!([0, 0])
}

fn unsigned(r: &mut R, peek: bool, n: u32, ty: &str) -> Result<u64, Error> {
    macro_rules! go {
        ($t:ty) => {
            if peek {
                r.peek_bits::<$t>(n).map(|v| v as u64)
            } else {
                r.read_bits::<$t>(n).map(|v| v as u64)
            }
        };
    }
    match ty {
        "u8" => go!(u8),
        "u16" => go!(u16),
        "u32" => go!(u32),
        "u64" => go!(u64),
        "i16" => {
            if peek {
                r.peek_bits::<i16>(n).map(|v| v as u16 as u64)
            } else {
                r.read_bits::<i16>(n).map(|v| v as u16 as u64)
            }
        }
        "i32" => {
            if peek {
                r.peek_bits::<i32>(n).map(|v| v as u32 as u64)
            } else {
                r.read_bits::<i32>(n).map(|v| v as u32 as u64)
            }
        }
        _ => Err(Error::InternalDecoderError),
    }
}

fn signed(r: &mut R, peek: bool, n: u32, ty: &str) -> Result<i64, Error> {
    macro_rules! go {
        ($t:ty, $s:ty) => {
            if peek {
                r.peek_signed_bits::<$t>(n).map(|v| v as $s as i64)
            } else {
                r.read_signed_bits::<$t>(n).map(|v| v as $s as i64)
            }
        };
    }
    match ty {
        "u8" => go!(u8, i8),
        "u16" => go!(u16, i16),
        "u32" => go!(u32, i32),
        "u64" => go!(u64, i64),
        "i16" => go!(i16, i16),
        "i32" => go!(i32, i32),
        _ => Err(Error::InternalDecoderError),
    }
}

impl<'a> Interp<'a> {
    /// Index of the "end" matching the "begin" at `b`.
    fn matching_end(&self, b: usize) -> usize {
        let mut depth = 0;
        for j in b..self.ops.len() {
            match self.ops[j][0].as_str().unwrap_or("") {
                "begin" => depth += 1,
                "end" => {
                    depth -= 1;
                    if depth == 0 {
                        return j;
                    }
                }
                _ => {}
            }
        }
        self.ops.len()
    }

    /// Runs ops[*i..] until the enclosing transaction's "end" (or the end of the list).
    /// Returns the outcome the closure must produce: Ok(Some) / Ok(None) / Err.
    /// `mode`: "n" never abort, "v" abort the transaction on a failed VLC/UMV read,
    /// "a" abort on any failed read.
    fn body(&mut self, r: &mut R, i: &mut usize, end: usize, mode: &str) -> Result<Option<()>, Error> {
        while *i < end.min(self.ops.len()) {
            let op = self.ops[*i].clone();
            let kind = op[0].as_str().unwrap_or("").to_string();
            let mut failed: Option<Error> = None;
            let mut is_vlc = false;
            let mut rec = json!({});
            match kind.as_str() {
                "peek" | "read" => {
                    let n = op[1].as_u64().unwrap() as u32;
                    match unsigned(r, kind == "peek", n, op[2].as_str().unwrap()) {
                        Ok(v) => rec = json!({"r":"ok","v":hi_lo(v)}),
                        Err(e) => {
                            rec = json!({"r":err_name(&e)});
                            failed = Some(e);
                        }
                    }
                }
                "peeks" | "reads" => {
                    let n = op[1].as_u64().unwrap() as u32;
                    match signed(r, kind == "peeks", n, op[2].as_str().unwrap()) {
                        Ok(v) => rec = json!({"r":"ok","v":v}),
                        Err(e) => {
                            rec = json!({"r":err_name(&e)});
                            failed = Some(e);
                        }
                    }
                }
                "skip" => match r.skip_bits(op[1].as_u64().unwrap() as u32) {
                    Ok(()) => rec = json!({"r":"ok"}),
                    Err(e) => {
                        rec = json!({"r":err_name(&e)});
                        failed = Some(e);
                    }
                },
                "u8" => match r.read_u8() {
                    Ok(v) => rec = json!({"r":"ok","v":hi_lo(v as u64)}),
                    Err(e) => {
                        rec = json!({"r":err_name(&e)});
                        failed = Some(e);
                    }
                },
                "vlc" => {
                    is_vlc = true;
                    match r.read_vlc(&self.entries[..]) {
                        Ok(v) => rec = json!({"r":"ok","v":v}),
                        Err(e) => {
                            rec = json!({"r":err_name(&e)});
                            failed = Some(e);
                        }
                    }
                }
                "umv" => {
                    is_vlc = true;
                    match r.read_umv() {
                        Ok(v) => {
                            // HalfPel is opaque: recover the unit through its lerp parameters
                            let (whole, half) = v.into_lerp_parameters();
                            rec = json!({"r":"ok","v": (whole as i64) * 2 + if half {1} else {0}});
                        }
                        Err(e) => {
                            rec = json!({"r":err_name(&e)});
                            failed = Some(e);
                        }
                    }
                }
                "sc" => match r.recognize_start_code(op[1].as_bool().unwrap_or(false)) {
                    Ok(Some(k)) => rec = json!({"r":"ok","v":k}),
                    Ok(None) => rec = json!({"r":"none"}),
                    Err(e) => {
                        rec = json!({"r":err_name(&e)});
                        failed = Some(e);
                    }
                },
                "commit" => {
                    r.commit();
                    rec = json!({"r":"ok"});
                }
                "append" => {
                    let k = op[1].as_u64().unwrap() as usize;
                    let mut d = self.src.data.borrow_mut();
                    d.1 = (d.1 + k).min(d.0.len());
                    rec = json!({"r":"ok"});
                }
                "begin" => {
                    let tk = op[1].as_str().unwrap_or("txn").to_string();
                    let m = op[2].as_str().unwrap_or("n").to_string();
                    let e = self.matching_end(*i);
                    self.res.push(json!({"r":"ok","p":probe(r)}));
                    *i += 1;
                    let ret: String = match tk.as_str() {
                        "txn" => match r.with_transaction(|rr| self.body(rr, i, e, &m).map(|_| ())) {
                            Ok(()) => "ok".into(),
                            Err(Error::InternalDecoderError) => "rollback-failed".into(),
                            Err(_) => "err".into(),
                        },
                        "union" => match r.with_transaction_union(|rr| self.body(rr, i, e, &m)) {
                            Ok(Some(())) => "ok".into(),
                            Ok(None) => "none".into(),
                            Err(Error::InternalDecoderError) => "rollback-failed".into(),
                            Err(_) => "err".into(),
                        },
                        _ => match r.with_lookahead(|rr| self.body(rr, i, e, &m)) {
                            Ok(Some(())) => "ok".into(),
                            Ok(None) => "none".into(),
                            Err(Error::InternalDecoderError) => "rollback-failed".into(),
                            Err(_) => "err".into(),
                        },
                    };
                    // results of skipped ops (after an abort) are filled so that indices align
                    while self.res.len() < e.min(self.ops.len()) {
                        self.res.push(json!({"r":"skipped"}));
                    }
                    if e < self.ops.len() {
                        self.res.push(json!({"r":ret,"p":probe(r)}));
                    }
                    *i = e + 1;
                    continue;
                }
                "end" => {
                    // only reached for an unmatched "end" (malformed command)
                    rec = json!({"r":"harness:unmatched-end"});
                }
                _ => rec = json!({"r":"harness:unknown-op"}),
            }
            let abort = failed.is_some() && end < usize::MAX && (mode == "a" || (mode == "v" && is_vlc));
            if !(failed.is_some() && is_vlc) {
                rec["p"] = probe(r);
            }
            self.res.push(rec);
            *i += 1;
            if abort {
                return Err(match failed.unwrap() {
                    // keep the kind distinguishable from a failed rollback
                    Error::InternalDecoderError => Error::InvalidBitstream,
                    e => e,
                });
            }
            if failed_vlc_toplevel(end, is_vlc, self.res.last()) {
                // position undefined from here on: stop
                *i = self.ops.len();
                return Ok(Some(()));
            }
        }
        // the closing "end" op decides what the closure returns
        if end < self.ops.len() {
            match self.ops[end][1].as_str().unwrap_or("ok") {
                "ok" => Ok(Some(())),
                "none" => Ok(None),
                _ => Err(Error::InvalidBitstream),
            }
        } else {
            Ok(Some(()))
        }
    }
}

fn failed_vlc_toplevel(end: usize, is_vlc: bool, last: Option<&Value>) -> bool {
    end == usize::MAX && is_vlc && last.map(|r| r["r"] != "ok").unwrap_or(false)
}

pub fn reader(cmd: &Value) -> Value {
    let mut ev = cmd.clone();
    let src = crate::bytes(&cmd["src"]);
    let avail = cmd["avail"].as_u64().unwrap_or(src.len() as u64) as usize;
    let entries: Vec<Entry<i64>> = cmd["entries"]
        .as_array()
        .map(|a| {
            a.iter()
                .map(|e| {
                    if e[0] == "F" {
                        Entry::Fork(e[1].as_u64().unwrap() as usize, e[2].as_u64().unwrap() as usize)
                    } else {
                        Entry::End(e[1].as_i64().unwrap())
                    }
                })
                .collect()
        })
        .unwrap_or_default();
    let ops: Vec<Value> = cmd["ops"].as_array().cloned().unwrap_or_default();
    let g = Growing {
        data: Rc::new(RefCell::new((src.clone(), avail.min(src.len()), 0))),
        maxread: cmd["maxread"].as_u64().unwrap_or(0) as usize,
    };
    let mut it = Interp { ops: &ops, res: Vec::new(), entries, src: g.clone() };
    let mut rd = H263Reader::from_source(g.clone());
    let mut i = 0usize;
    let out = guarded(|| {
        let _ = it.body(&mut rd, &mut i, usize::MAX, "n");
    });
    ev["res"] = json!(it.res);
    ev["ret"] = match out {
        Ok(()) => json!("ok"),
        Err(m) => json!(format!("panic:{}", m)),
    };
    ev["fetched"] = json!(g.data.borrow().2);
    ev
}
