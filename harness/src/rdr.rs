use serde_json::{json, Value};
pub fn reader(cmd: &Value) -> Value {
    let mut ev = cmd.clone();
    ev["ret"] = json!("harness:unimplemented");
    ev
}
